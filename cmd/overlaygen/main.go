// overlaygen writes a Go build overlay that (1) replaces selected repository
// files by copies whose imports of sync / sync/atomic / time are redirected to
// the scheduler shims and (2) maps the shim sources into the semadb module as
// github.com/semafind/semadb/zzverif/....  Only import specs are rewritten (by
// AST), from the repository's working tree at run time; a listed file that no
// longer imports what is expected is an error, so a refactor cannot silently
// turn the scheduling points off.
//
// usage: overlaygen -repo /repo -verif /verif -out DIR file:pkgs ...
//
//	e.g. shard/cache/manager.go:sync,atomic  cluster/shardmgr.go:sync,time
//	     +shard/index/vamana/zz_verif_workers.go=harness/c10/hook/workers.go.txt  (adds a file)
package main

import (
	"encoding/json"
	"flag"
	"fmt"
	"go/ast"
	"go/format"
	"go/parser"
	"go/token"
	"os"
	"path/filepath"
	"strconv"
	"strings"
)

var shimOf = map[string][2]string{
	"sync":   {"sync", "github.com/semafind/semadb/zzverif/vsync"},
	"atomic": {"sync/atomic", "github.com/semafind/semadb/zzverif/vatomic"},
	"time":   {"time", "github.com/semafind/semadb/zzverif/vtime"},
}

func main() {
	repo := flag.String("repo", "/repo", "")
	verif := flag.String("verif", "/verif", "")
	out := flag.String("out", "", "")
	flag.Parse()
	if *out == "" {
		fmt.Fprintln(os.Stderr, "need -out")
		os.Exit(2)
	}
	os.MkdirAll(*out, 0o755)
	replace := map[string]string{}
	for _, spec := range flag.Args() {
		if strings.HasPrefix(spec, "+") {
			// +<path inside the repository>=<source under /verif>: a file ADDED to a
			// repository package (an accessor to unexported functions for a harness)
			dst, src, ok := strings.Cut(spec[1:], "=")
			if !ok {
				fmt.Fprintf(os.Stderr, "bad add spec %q\n", spec)
				os.Exit(2)
			}
			if _, err := os.Stat(filepath.Join(*repo, dst)); err == nil {
				fmt.Fprintf(os.Stderr, "%s exists in the repository: refusing to shadow it\n", dst)
				os.Exit(2)
			}
			replace[filepath.Join(*repo, dst)] = filepath.Join(*verif, src)
			continue
		}
		file, pkgs, _ := strings.Cut(spec, ":")
		src := filepath.Join(*repo, file)
		fset := token.NewFileSet()
		f, err := parser.ParseFile(fset, src, nil, parser.ParseComments)
		if err != nil {
			fmt.Fprintln(os.Stderr, err)
			os.Exit(2)
		}
		for _, p := range strings.Split(pkgs, ",") {
			m, ok := shimOf[p]
			if !ok {
				fmt.Fprintf(os.Stderr, "unknown shim %q\n", p)
				os.Exit(2)
			}
			found := false
			for _, imp := range f.Imports {
				path, _ := strconv.Unquote(imp.Path.Value)
				if path == m[0] {
					name := m[0][strings.LastIndex(m[0], "/")+1:]
					if imp.Name != nil {
						name = imp.Name.Name
					}
					imp.Name = ast.NewIdent(name)
					imp.Path.Value = strconv.Quote(m[1])
					found = true
				}
			}
			if !found {
				fmt.Fprintf(os.Stderr, "%s no longer imports %q: the scheduling points of this file would be lost\n", file, m[0])
				os.Exit(2)
			}
		}
		dst := filepath.Join(*out, strings.ReplaceAll(file, "/", "__"))
		w, err := os.Create(dst)
		if err != nil {
			fmt.Fprintln(os.Stderr, err)
			os.Exit(2)
		}
		if err := format.Node(w, fset, f); err != nil {
			fmt.Fprintln(os.Stderr, err)
			os.Exit(2)
		}
		w.Close()
		replace[src] = dst
	}
	shims, _ := filepath.Glob(filepath.Join(*verif, "shim", "*", "*.go"))
	for _, s := range shims {
		rel, _ := filepath.Rel(filepath.Join(*verif, "shim"), s)
		replace[filepath.Join(*repo, "zzverif", rel)] = s
	}
	b, _ := json.MarshalIndent(map[string]any{"Replace": replace}, "", " ")
	if err := os.WriteFile(filepath.Join(*out, "overlay.json"), b, 0o644); err != nil {
		fmt.Fprintln(os.Stderr, err)
		os.Exit(2)
	}
}
