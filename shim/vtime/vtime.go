// Package vtime replaces "time" in import-rewritten repository files whose
// timers the scheduler must own: NewTimer returns a virtual timer whose firing
// is a controller transition ("the idle timeout lands now").
package vtime

import (
	"fmt"
	"sync"
	"time"

	"github.com/semafind/semadb/zzverif/vsched"
)

type (
	Duration = time.Duration
	Time     = time.Time
	Month    = time.Month
	Location = time.Location
)

const (
	Nanosecond  = time.Nanosecond
	Microsecond = time.Microsecond
	Millisecond = time.Millisecond
	Second      = time.Second
	Minute      = time.Minute
	Hour        = time.Hour
)

func Now() Time                    { return time.Now() }
func Since(t Time) Duration        { return time.Since(t) }
func Until(t Time) Duration        { return time.Until(t) }
func Sleep(d Duration)             { time.Sleep(d) }
func Unix(s, ns int64) Time        { return time.Unix(s, ns) }
func After(d Duration) <-chan Time { return time.After(d) }

// Timer mirrors time.Timer.
type Timer struct {
	C     <-chan Time
	c     chan Time
	real  *time.Timer
	mu    sync.Mutex
	armed bool
}

var seq struct {
	sync.Mutex
	n int
}

// NewTimer: under a scheduler the timer never fires by itself; a transition
// "timer#k" is enabled while it is armed.
func NewTimer(d Duration) *Timer {
	s := vsched.Cur()
	if s == nil {
		rt := time.NewTimer(d)
		return &Timer{C: rt.C, real: rt}
	}
	t := &Timer{c: make(chan Time, 1), armed: true}
	t.C = t.c
	seq.Lock()
	seq.n++
	name := fmt.Sprintf("timer#%d", seq.n)
	seq.Unlock()
	s.AddEvent(&vsched.Event{Name: name, Enabled: func() bool {
		t.mu.Lock()
		defer t.mu.Unlock()
		return t.armed
	}, Fire: func() {
		t.mu.Lock()
		t.armed = false
		t.mu.Unlock()
		select {
		case t.c <- time.Now():
		default:
		}
	}})
	return t
}

// ResetNames restarts timer numbering (one execution = one numbering).
func ResetNames() {
	seq.Lock()
	seq.n = 0
	seq.Unlock()
}

// Stop follows the Go >= 1.23 contract: it reports true if the timer was
// armed or its value had not been received yet; no stale value stays behind.
func (t *Timer) Stop() bool {
	if t.real != nil {
		return t.real.Stop()
	}
	t.mu.Lock()
	defer t.mu.Unlock()
	was := t.armed
	t.armed = false
	select {
	case <-t.c:
		was = true
	default:
	}
	return was
}

// Reset re-arms the timer.
func (t *Timer) Reset(d Duration) bool {
	if t.real != nil {
		return t.real.Reset(d)
	}
	t.mu.Lock()
	defer t.mu.Unlock()
	was := t.armed
	select {
	case <-t.c:
		was = true
	default:
	}
	t.armed = true
	return was
}
