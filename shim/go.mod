// The files below are not built as part of module semaverif: a build overlay
// maps them into github.com/semafind/semadb/zzverif/... (see cmd/overlaygen).
module semaverif-shims-overlaid-into-semadb

go 1.24.3
