package vsched

// Children returns the alternative choice sequences the deviation-bounded
// search must still explore below the execution tr that was run with the given
// prefix: for every position at or after the prefix and every alternative
// transition there, if the number of preemptions stays within bound.
func Children(tr *Trace, prefixLen, bound int) [][]string {
	var out [][]string
	pre := 0 // preemptions in choices[:i]
	choices := tr.Choices()
	for i, st := range tr.Steps {
		if i >= prefixLen {
			for alt := 0; alt < len(st.Enabled); alt++ {
				if st.Enabled[alt] == st.Chosen {
					continue
				}
				cost := pre
				if st.RunStay && alt != 0 {
					cost++
				}
				if cost > bound {
					continue
				}
				child := make([]string, i+1)
				copy(child, choices[:i])
				child[i] = st.Enabled[alt]
				out = append(out, child)
			}
		}
		if st.RunStay && st.Chosen != st.Enabled[0] {
			pre++
		}
	}
	return out
}

// Preemptions counts the preemptions of an execution.
func Preemptions(tr *Trace) int {
	n := 0
	for _, st := range tr.Steps {
		if st.RunStay && st.Chosen != st.Enabled[0] {
			n++
		}
	}
	return n
}
