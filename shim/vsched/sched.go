// Package vsched is the controlled scheduler of the schedx engine.
//
// It is compiled INTO the semadb module by a build overlay (as
// github.com/semafind/semadb/zzverif/vsched) together with the sync / atomic /
// time shims that the import-rewritten repository files use, so that the code
// under test and the harness share one scheduler instance.
//
// Participants are real goroutines.  A participant reaching a scheduling point
// parks on its own channel; the controller (the goroutine that called Run)
// waits until the process is quiescent, computes the enabled set, picks one
// transition according to the choice sequence and releases it.  Exactly one
// transition is released at a time.
package vsched

import (
	"bytes"
	"fmt"
	"runtime"
	"sort"
	"strconv"
	"strings"
	"sync"
	"sync/atomic"
	"time"
)

const (
	stNew = iota
	stParked
	stRunning
	stDone
)

type thread struct {
	id      int
	name    string
	goid    uint64
	wake    chan struct{}
	label   string
	enabled func() bool
	state   int32
	adopted bool // spawned by the code under test, not by Go()
	daemon  bool
}

// Event is a transition that is not a thread: the controller itself executes
// it (e.g. a virtual timer firing).
type Event struct {
	Name    string
	Enabled func() bool
	Fire    func()
	id      int
}

// Step is one scheduler transition of an execution.
type Step struct {
	Enabled []string `json:"enabled"` // canonical order: running thread first, then ascending ids, then events
	Labels  []string `json:"labels"`
	Chosen  string   `json:"chosen"`
	Label   string   `json:"label"`
	RunStay bool     `json:"runStay"` // the thread that ran last is still enabled (an alternative is a preemption)
}

// Trace is the record of one execution.
type Trace struct {
	Steps     []Step   `json:"steps"`
	Deadlock  bool     `json:"deadlock"`
	Stuck     []string `json:"stuck,omitempty"` // unfinished participants at a deadlock
	Dump      string   `json:"dump,omitempty"`
	Diverged  string   `json:"diverged,omitempty"` // replay of the prefix did not see the recorded choice enabled
	Horizon   bool     `json:"horizon"`
	Unsettled bool     `json:"unsettled"` // quiescence was not reached within the patience window
	Snapshots int      `json:"snapshots"`
	SettleNs  int64    `json:"settleNs"`
}

// Choices returns the chosen names.
func (t *Trace) Choices() []string {
	out := make([]string, len(t.Steps))
	for i, s := range t.Steps {
		out[i] = s.Chosen
	}
	return out
}

// Sched is one controlled execution.
type Sched struct {
	mu       sync.Mutex
	threads  []*thread
	byGoid   map[uint64]*thread
	events   []*Event
	notify   chan struct{}
	ctlGoid  uint64
	fast     bool
	maxSteps int
	last     *thread
	current  *thread // fast mode: the participant that is running now (nil while the controller runs)
	timer    *time.Timer
	trace    Trace
	adoptSeq int
	patience time.Duration
	// AdoptName names goroutines spawned by the code under test from their
	// first label; nil = "spawn#k".
	stackBuf []byte
}

var cur atomic.Pointer[Sched]

// Cur returns the active scheduler or nil.
func Cur() *Sched { return cur.Load() }

func goid() uint64 {
	var buf [64]byte
	n := runtime.Stack(buf[:], false)
	// "goroutine 123 ["
	b := buf[10:n]
	i := bytes.IndexByte(b, ' ')
	id, _ := strconv.ParseUint(string(b[:i]), 10, 64)
	return id
}

// Options configure a run.
type Options struct {
	// Fast: every blocking operation of the code under test is shimmed, so the
	// controller only waits for the released thread to park or finish (no
	// runtime.Stack snapshots).
	Fast     bool
	MaxSteps int
	Patience time.Duration
	// Teardown: when the execution is over, stop controlling, wake every parked
	// participant and fire every armed event so that leftover goroutines of the
	// code under test can run to their end instead of leaking.
	Teardown bool
}

// Run executes body (which spawns the participants with Go) under the choice
// sequence prefix; after the prefix the default policy applies (keep running
// the same thread if enabled, else lowest id).
func Run(opt Options, prefix []string, body func(s *Sched)) *Trace {
	s := &Sched{byGoid: map[uint64]*thread{}, notify: make(chan struct{}, 1<<16), fast: opt.Fast, maxSteps: opt.MaxSteps, patience: opt.Patience}
	if s.maxSteps == 0 {
		s.maxSteps = 5000
	}
	if s.patience == 0 {
		s.patience = 5 * time.Second
	}
	s.ctlGoid = goid()
	s.stackBuf = make([]byte, 1<<20)
	cur.Store(s)
	defer cur.Store(nil)
	body(s)
	s.loop(prefix)
	if s.timer != nil {
		s.timer.Stop()
	}
	if opt.Teardown {
		cur.Store(nil)
		s.mu.Lock()
		threads := append([]*thread{}, s.threads...)
		events := append([]*Event{}, s.events...)
		s.mu.Unlock()
		for _, t := range threads {
			if atomic.LoadInt32(&t.state) == stParked {
				atomic.StoreInt32(&t.state, stRunning)
				select {
				case t.wake <- struct{}{}:
				default:
				}
			}
		}
		for _, e := range events {
			if e.Enabled == nil || e.Enabled() {
				e.Fire()
			}
		}
		// leftovers must have finished or be blocked for good before the next
		// execution starts, otherwise they would walk into its scheduler
		deadline := time.Now().Add(2 * time.Second)
		for time.Now().Before(deadline) {
			if _, busy, _ := s.snapshot(); !busy {
				break
			}
			time.Sleep(50 * time.Microsecond)
		}
	}
	return &s.trace
}

// Go spawns a participant.
func (s *Sched) Go(name string, fn func()) {
	t := &thread{name: name, wake: make(chan struct{}, 1)}
	s.mu.Lock()
	t.id = len(s.threads)
	s.threads = append(s.threads, t)
	s.mu.Unlock()
	go func() {
		s.mu.Lock()
		t.goid = goid()
		s.byGoid[t.goid] = t
		s.mu.Unlock()
		s.park(t, "start", nil)
		fn()
		atomic.StoreInt32(&t.state, stDone)
		s.current = nil
		s.ping()
	}()
}

// AddEvent registers a controller-executed transition.
func (s *Sched) AddEvent(e *Event) {
	s.mu.Lock()
	e.id = len(s.events)
	s.events = append(s.events, e)
	s.mu.Unlock()
}

func (s *Sched) ping() {
	select {
	case s.notify <- struct{}{}:
	default:
	}
}

func (s *Sched) self() *thread {
	if s.fast {
		// exactly one participant runs at a time and every blocking operation is
		// shimmed: the running participant is the one released last
		return s.current
	}
	g := goid()
	s.mu.Lock()
	defer s.mu.Unlock()
	if t, ok := s.byGoid[g]; ok {
		return t
	}
	if g == s.ctlGoid {
		return nil
	}
	// a goroutine the code under test spawned itself
	s.adoptSeq++
	t := &thread{name: fmt.Sprintf("spawn#%d", s.adoptSeq), goid: g, wake: make(chan struct{}, 1), adopted: true, daemon: true}
	t.id = len(s.threads)
	s.threads = append(s.threads, t)
	s.byGoid[g] = t
	return t
}

// Participant reports whether the calling goroutine is (or becomes) a
// participant of the active scheduler; the controller itself is not.
func (s *Sched) Participant() bool {
	if s.fast {
		return s.current != nil
	}
	return goid() != s.ctlGoid
}

func (s *Sched) park(t *thread, label string, enabled func() bool) {
	t.label = label
	t.enabled = enabled
	if s.fast && s.current == t {
		s.current = nil
	}
	atomic.StoreInt32(&t.state, stParked)
	s.ping()
	<-t.wake
}

// Point is an always-enabled scheduling point.
func Point(label string) {
	if s := cur.Load(); s != nil {
		if t := s.self(); t != nil {
			s.park(t, label, nil)
		}
	}
}

// PointIf is a scheduling point whose transition is enabled only when
// enabled() holds (evaluated by the controller at quiescence).
func PointIf(label string, enabled func() bool) {
	if s := cur.Load(); s != nil {
		if t := s.self(); t != nil {
			s.park(t, label, enabled)
		}
	}
}

// Controlled reports whether the calling goroutine runs under a scheduler.
func Controlled() bool {
	s := cur.Load()
	if s == nil {
		return false
	}
	if s.fast {
		return s.current != nil
	}
	return goid() != s.ctlGoid
}

var busyStates = []string{"running", "runnable", "syscall", "sleep"}

// snapshot returns the set of live goroutine ids and whether any goroutine
// other than the controller is in a non-blocked state.
func (s *Sched) snapshot() (live map[uint64]bool, busy bool, dump string) {
	for {
		n := runtime.Stack(s.stackBuf, true)
		if n < len(s.stackBuf) {
			dump = string(s.stackBuf[:n])
			break
		}
		s.stackBuf = make([]byte, 2*len(s.stackBuf))
	}
	live = map[uint64]bool{}
	for _, block := range strings.Split(dump, "\n\n") {
		if !strings.HasPrefix(block, "goroutine ") {
			continue
		}
		hdr := block
		if i := strings.IndexByte(block, '\n'); i >= 0 {
			hdr = block[:i]
		}
		// goroutine 12 [chan receive, 2 minutes]:
		rest := hdr[len("goroutine "):]
		sp := strings.IndexByte(rest, ' ')
		if sp < 0 {
			continue
		}
		id, _ := strconv.ParseUint(rest[:sp], 10, 64)
		live[id] = true
		if id == s.ctlGoid {
			continue
		}
		lb, rb := strings.IndexByte(rest, '['), strings.LastIndexByte(rest, ']')
		if lb < 0 || rb < lb {
			busy = true
			continue
		}
		state := rest[lb+1 : rb]
		if c := strings.IndexByte(state, ','); c >= 0 {
			state = state[:c]
		}
		for _, b := range busyStates {
			if state == b {
				// runtime-internal goroutines that merely look busy
				if strings.Contains(block, "runtime.gcBgMarkWorker") || strings.Contains(block, "runtime.bgsweep") || strings.Contains(block, "runtime.bgscavenge") || strings.Contains(block, "os/signal.") || strings.Contains(block, "runtime.forcegchelper") || strings.Contains(block, "runtime.runfinq") || strings.Contains(block, "runtime.ensureSigM") {
					continue
				}
				busy = true
			}
		}
	}
	return
}

// settle waits until nothing but the controller can run.
func (s *Sched) settle(released *thread) bool {
	deadline := time.Now().Add(s.patience)
	if s.fast {
		for {
			if released == nil {
				// initial: all spawned threads must have parked
				all := true
				s.mu.Lock()
				for _, t := range s.threads {
					if atomic.LoadInt32(&t.state) == stNew || atomic.LoadInt32(&t.state) == stRunning {
						all = false
					}
				}
				s.mu.Unlock()
				if all {
					return true
				}
			} else if st := atomic.LoadInt32(&released.state); st == stParked || st == stDone {
				return true
			}
			if s.timer == nil {
				s.timer = time.NewTimer(s.patience)
			}
			select {
			case <-s.notify:
			case <-s.timer.C:
				if time.Now().After(deadline) {
					return false
				}
				s.timer.Reset(s.patience)
			}
		}
	}
	spins := 0
	t0 := time.Now()
	defer func() { s.trace.SettleNs += int64(time.Since(t0)) }()
	if released != nil {
		// cheap first: the released participant usually parks or finishes at once;
		// the snapshot afterwards confirms that nothing else is running either
		for i := 0; i < 2000; i++ {
			if st := atomic.LoadInt32(&released.state); st == stParked || st == stDone {
				break
			}
			runtime.Gosched()
		}
	}
	for {
		s.trace.Snapshots++
		// drain notifications
		for {
			select {
			case <-s.notify:
				continue
			default:
			}
			break
		}
		live, busy, _ := s.snapshot()
		if !busy {
			// threads marked running must be parked, done or blocked; a
			// vanished adopted goroutine has finished
			ok := true
			s.mu.Lock()
			for _, t := range s.threads {
				st := atomic.LoadInt32(&t.state)
				if st == stNew {
					ok = false
				}
				if t.goid != 0 && !live[t.goid] && st != stDone {
					atomic.StoreInt32(&t.state, stDone)
				}
			}
			s.mu.Unlock()
			if ok {
				return true
			}
		}
		if time.Now().After(deadline) {
			return false
		}
		spins++
		if spins < 20 {
			runtime.Gosched()
		} else {
			time.Sleep(20 * time.Microsecond)
		}
	}
}

// nil2 returns the thread to wait for when re-settling without a release.
func nil2(s *Sched) *thread { return s.last }

type cand struct {
	name  string
	label string
	t     *thread
	e     *Event
}

func (s *Sched) enabledSet() []cand {
	s.mu.Lock()
	threads := append([]*thread{}, s.threads...)
	events := append([]*Event{}, s.events...)
	s.mu.Unlock()
	var out []cand
	var first *cand
	for _, t := range threads {
		if atomic.LoadInt32(&t.state) != stParked {
			continue
		}
		if t.enabled != nil && !t.enabled() {
			continue
		}
		c := cand{name: t.name, label: t.label, t: t}
		if t == s.last {
			cc := c
			first = &cc
			continue
		}
		out = append(out, c)
	}
	sort.SliceStable(out, func(i, j int) bool { return out[i].t.id < out[j].t.id })
	if first != nil {
		out = append([]cand{*first}, out...)
	}
	for _, e := range events {
		if e.Enabled == nil || e.Enabled() {
			out = append(out, cand{name: e.Name, label: "event", e: e})
		}
	}
	return out
}

func (s *Sched) unfinished() []string {
	s.mu.Lock()
	defer s.mu.Unlock()
	var out []string
	for _, t := range s.threads {
		if t.daemon {
			continue
		}
		if st := atomic.LoadInt32(&t.state); st != stDone {
			lbl := t.label
			if st == stRunning {
				lbl = "(blocked outside a scheduling point after " + t.label + ")"
			}
			out = append(out, t.name+" @ "+lbl)
		}
	}
	return out
}

func (s *Sched) loop(prefix []string) {
	if !s.settle(nil) {
		s.trace.Unsettled = true
		return
	}
	for step := 0; ; step++ {
		en := s.enabledSet()
		pending := s.unfinished()
		if len(pending) == 0 {
			return // every non-daemon participant finished
		}
		if len(en) == 0 {
			// a deadlock persists: look again after a pause before believing a
			// single snapshot (a goroutine can sit on a runtime-internal mutex
			// for an instant)
			time.Sleep(5 * time.Millisecond)
			s.settle(nil2(s))
			en = s.enabledSet()
			pending = s.unfinished()
			if len(pending) == 0 {
				return
			}
		}
		if len(en) == 0 {
			s.trace.Deadlock = true
			s.trace.Stuck = pending
			_, _, s.trace.Dump = s.snapshot()
			return
		}
		if step >= s.maxSteps {
			s.trace.Horizon = true
			return
		}
		// only daemon threads / events enabled while harness threads are all
		// blocked outside points: still a deadlock of the harness threads unless
		// a daemon or event can unblock them — keep going, they are transitions
		pick := 0
		if step < len(prefix) {
			pick = -1
			for i, c := range en {
				if c.name == prefix[step] {
					pick = i
					break
				}
			}
			if pick < 0 {
				names := make([]string, len(en))
				for i, c := range en {
					names[i] = c.name
				}
				s.trace.Diverged = fmt.Sprintf("step %d: recorded choice %q is not enabled; enabled: %v", step, prefix[step], names)
				return
			}
		}
		st := Step{Chosen: en[pick].name, Label: en[pick].label}
		for _, c := range en {
			st.Enabled = append(st.Enabled, c.name)
			st.Labels = append(st.Labels, c.label)
		}
		st.RunStay = s.last != nil && en[0].t == s.last
		s.trace.Steps = append(s.trace.Steps, st)
		c := en[pick]
		var released *thread
		if c.t != nil {
			s.last = c.t
			atomic.StoreInt32(&c.t.state, stRunning)
			released = c.t
			if s.fast {
				s.current = c.t
			}
			c.t.wake <- struct{}{}
		} else {
			c.e.Fire()
		}
		if !s.settle(released) {
			s.trace.Unsettled = true
			_, _, s.trace.Dump = s.snapshot()
			return
		}
	}
}

// SetDaemon marks the calling participant as a daemon: the execution may end
// while it is still parked or blocked.
func SetDaemon() {
	if s := cur.Load(); s != nil {
		if t := s.self(); t != nil {
			t.daemon = true
		}
	}
}

var siteCache sync.Map // pc -> "file:line"

// Site returns "file:line" of the caller's caller, for point labels.
func Site(skip int) string {
	var pcs [1]uintptr
	if runtime.Callers(skip+2, pcs[:]) == 0 {
		return "?"
	}
	if v, ok := siteCache.Load(pcs[0]); ok {
		return v.(string)
	}
	fr, _ := runtime.CallersFrames(pcs[:]).Next()
	file := fr.File
	if i := strings.LastIndexByte(file, '/'); i >= 0 {
		file = file[i+1:]
	}
	out := file + ":" + strconv.Itoa(fr.Line)
	siteCache.Store(pcs[0], out)
	return out
}
