// Package vatomic replaces "sync/atomic" in import-rewritten repository files:
// Bool operations are scheduling points; everything else is the real package.
package vatomic

import (
	"sync/atomic"

	"github.com/semafind/semadb/zzverif/vsched"
)

type (
	Int32   = atomic.Int32
	Int64   = atomic.Int64
	Uint32  = atomic.Uint32
	Uint64  = atomic.Uint64
	Uintptr = atomic.Uintptr
	Value   = atomic.Value
)

// Bool mirrors atomic.Bool.
type Bool struct{ real atomic.Bool }

func (b *Bool) Load() bool {
	if vsched.Controlled() {
		vsched.Point("atomic.Load " + vsched.Site(1))
	}
	return b.real.Load()
}

func (b *Bool) Store(v bool) {
	if vsched.Controlled() {
		vsched.Point("atomic.Store " + vsched.Site(1))
	}
	b.real.Store(v)
}

func (b *Bool) Swap(v bool) bool {
	if vsched.Controlled() {
		vsched.Point("atomic.Swap " + vsched.Site(1))
	}
	return b.real.Swap(v)
}

func (b *Bool) CompareAndSwap(old, new bool) bool {
	if vsched.Controlled() {
		vsched.Point("atomic.CAS " + vsched.Site(1))
	}
	return b.real.CompareAndSwap(old, new)
}
