// Package vsync replaces "sync" in import-rewritten repository files.  Mutex
// and RWMutex are cooperative under the vsched scheduler: every operation is a
// scheduling point whose enabledness the controller evaluates from the lock's
// logical state, so a controlled goroutine never blocks inside a lock.  Outside
// a controlled execution they behave exactly like the real primitives.
package vsync

import (
	"sync"

	"github.com/semafind/semadb/zzverif/vsched"
)

type (
	WaitGroup = sync.WaitGroup
	Once      = sync.Once
	Pool      = sync.Pool
	Map       = sync.Map
	Cond      = sync.Cond
	Locker    = sync.Locker
)

// NewCond mirrors sync.NewCond.
func NewCond(l Locker) *Cond { return sync.NewCond(l) }

// Mutex mirrors sync.Mutex.
type Mutex struct {
	real    sync.Mutex
	held    bool
	pending int
}

func (m *Mutex) Lock() {
	if vsched.Controlled() {
		site := vsched.Site(1)
		vsched.PointIf("Lock "+site, func() bool { return !m.held })
		m.held = true
		m.real.Lock()
		return
	}
	m.real.Lock()
}

func (m *Mutex) TryLock() bool {
	if vsched.Controlled() {
		vsched.Point("TryLock " + vsched.Site(1))
		if m.held {
			return false
		}
		m.held = true
		m.real.Lock()
		return true
	}
	return m.real.TryLock()
}

func (m *Mutex) Unlock() {
	if vsched.Controlled() {
		vsched.Point("Unlock " + vsched.Site(1))
		m.held = false
		m.real.Unlock()
		return
	}
	m.real.Unlock()
}

// RWMutex mirrors sync.RWMutex, including "a pending writer blocks new
// readers" (which is what makes TryRLock fail while a writer waits).
type RWMutex struct {
	real    sync.RWMutex
	writer  bool
	readers int
	pending int
}

func (m *RWMutex) Lock() {
	if vsched.Controlled() {
		site := vsched.Site(1)
		vsched.Point("Lock-announce " + site)
		m.pending++
		vsched.PointIf("Lock-acquire "+site, func() bool { return !m.writer && m.readers == 0 })
		m.pending--
		m.writer = true
		m.real.Lock()
		return
	}
	m.real.Lock()
}

func (m *RWMutex) TryLock() bool {
	if vsched.Controlled() {
		vsched.Point("TryLock " + vsched.Site(1))
		if m.writer || m.readers > 0 || m.pending > 0 {
			return false
		}
		m.writer = true
		m.real.Lock()
		return true
	}
	return m.real.TryLock()
}

func (m *RWMutex) Unlock() {
	if vsched.Controlled() {
		vsched.Point("Unlock " + vsched.Site(1))
		m.writer = false
		m.real.Unlock()
		return
	}
	m.real.Unlock()
}

func (m *RWMutex) RLock() {
	if vsched.Controlled() {
		vsched.PointIf("RLock "+vsched.Site(1), func() bool { return !m.writer && m.pending == 0 })
		m.readers++
		m.real.RLock()
		return
	}
	m.real.RLock()
}

func (m *RWMutex) TryRLock() bool {
	if vsched.Controlled() {
		vsched.Point("TryRLock " + vsched.Site(1))
		if m.writer || m.pending > 0 {
			return false
		}
		m.readers++
		m.real.RLock()
		return true
	}
	return m.real.TryRLock()
}

func (m *RWMutex) RUnlock() {
	if vsched.Controlled() {
		vsched.Point("RUnlock " + vsched.Site(1))
		m.readers--
		m.real.RUnlock()
		return
	}
	m.real.RUnlock()
}

// RLocker mirrors sync.RWMutex.RLocker.
func (m *RWMutex) RLocker() Locker { return rlocker{m} }

type rlocker struct{ m *RWMutex }

func (r rlocker) Lock()   { r.m.RLock() }
func (r rlocker) Unlock() { r.m.RUnlock() }
