#!/bin/bash
# setup_cmd: build the framework from files on disk only (offline) and warm the
# Go build cache so that the per-check rebuilds are incremental.
set -e
cd "$(dirname "$0")"
export GOFLAGS=-mod=mod GOPROXY=off
mkdir -p bin evidence replays
if [ -d cmd/overlaygen ]; then go build -o bin/overlaygen ./cmd/overlaygen; fi
# warm the cache: every harness once with the hooks on
for d in harness/*/; do
  go build -tags verif -o /dev/null "./$d" 2>/dev/null || true
done
echo setup ok
