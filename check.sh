#!/bin/bash
# check.sh <Cxx> [--tier quick|thorough] [--replay file] ...
# Rebuilds the harness of one property from /repo's *current working tree*
# (hooks on: -tags verif, plus the generated import-rewrite overlay where the
# harness needs scheduling points) and runs it.  Exit 0 = property held on
# everything explored, 1 = VIOLATION line printed, 2 = the machinery itself failed.
set -u
cd "$(dirname "$0")"
export GOFLAGS=-mod=mod GOPROXY=off
export VERIF_DIR="$PWD"
P="$1"; shift
p=$(echo "$P" | tr 'A-Z' 'a-z')
REPO="${VERIF_REPO:-/repo}"
SCR="/dev/shm/semaverif.$$"
mkdir -p "$SCR"
trap 'rm -rf "$SCR"' EXIT
MODFLAG=""
if [ "$REPO" != "/repo" ]; then
  sed "s#=> /repo#=> $REPO#" go.mod > "$SCR/go.mod"; cp go.sum "$SCR/go.sum"
  MODFLAG="-modfile=$SCR/go.mod"
fi
OVERLAY=""
if [ -f "harness/$p/overlay.files" ]; then
  if ! ./bin/overlaygen -repo "$REPO" -verif "$PWD" -out "$SCR/ov" $(cat "harness/$p/overlay.files"); then
    echo "overlay generation failed for $P" >&2; exit 2
  fi
  OVERLAY="-overlay $SCR/ov/overlay.json"
fi
# thorough tier of the schedule checks: first the separate free-running pass
# under the Go race detector (writes evidence/<id>.race.json, diagnostic only)
if [ -f "harness/$p/race.enable" ] && echo " $* " | grep -q -- "--tier thorough" && ! echo " $* " | grep -q -- "race="; then
  if go build -race $MODFLAG -tags verif $OVERLAY -o "$SCR/$p.race" "./harness/$p" 2> "$SCR/build.race.log"; then
    VERIF_SCRATCH="$SCR" "$SCR/$p.race" --tier thorough --budget 10m -x race=1 || true
  else
    echo "race build failed (skipping the race pass)"; tail -3 "$SCR/build.race.log"
  fi
fi
RACEFLAG=""
if [ "${VERIF_RACE:-0}" = 1 ]; then RACEFLAG="-race"; fi
if ! go build $RACEFLAG $MODFLAG -tags verif $OVERLAY -o "$SCR/$p" "./harness/$p" 2> "$SCR/build.log"; then
  cat "$SCR/build.log" >&2
  echo "build of harness $P against $REPO failed" >&2
  exit 2
fi
export VERIF_SCRATCH="$SCR"
"$SCR/$p" "$@"
