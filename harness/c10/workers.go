// C10, second phase: the insert workers of ONE batch.  Inside a write batch
// semadb runs runtime.NumCPU()-1 insert workers that share the graph cache and
// are ordered only by the per-node edge locks.  The history phases run with one
// worker; here two (or three) workers are scheduler threads around the real
// insertSinglePoint (accessor added by the overlay, harness/c10/hook), node.go's
// sync import is redirected to the scheduler shim, and every interleaving of
// the workers at the lock operations is enumerated up to a pre-emption bound.
package main

import (
	"context"
	"encoding/binary"
	"encoding/json"
	"fmt"
	"sort"
	"strings"
	"time"

	"github.com/semafind/semadb/conversion"
	"github.com/semafind/semadb/diskstore"
	"github.com/semafind/semadb/models"
	"github.com/semafind/semadb/shard/index/vamana"
	"github.com/semafind/semadb/zzverif/vsched"

	"semaverif/engine/harness"
	"semaverif/engine/pool"
	"semaverif/engine/schedx"
	"semaverif/harness/schedlib"
)

// WProgram is one exploration unit of the workers phase.
type WProgram struct {
	Name       string      `json:"name"`
	Degree     int         `json:"degree"`
	Alpha      float32     `json:"alpha"`
	SearchSize int         `json:"searchSize"`
	Start      []float32   `json:"start"`  // entry vector (fixed instead of random)
	Base       [][]float32 `json:"base"`   // node ids 2.., inserted one after the other before the batch
	Batch      [][]float32 `json:"batch"`  // the batch: node ids after the base, in queue order
	Assign     []int       `json:"assign"` // which worker takes which job (each worker keeps queue order)
}

func (p WProgram) workers() int {
	n := 0
	for _, a := range p.Assign {
		if a+1 > n {
			n = a + 1
		}
	}
	return n
}

// graphOf reads the persisted graph back from the bucket.
func graphOf(b diskstore.Bucket) (edges map[uint64][]uint64, vecs map[uint64]bool, maxRec uint64, haveMax bool, foreign []string) {
	edges, vecs = map[uint64][]uint64{}, map[uint64]bool{}
	b.ForEach(func(k, v []byte) error {
		switch {
		case len(k) == 10 && k[0] == 'n' && k[9] == 'e':
			edges[binary.LittleEndian.Uint64(k[1:9])] = conversion.BytesToEdgeList(v)
		case len(k) == 10 && k[0] == 'n' && (k[9] == 'v' || k[9] == 'q'):
			vecs[binary.LittleEndian.Uint64(k[1:9])] = true
		case string(k) == vamana.MAXNODEIDKEY:
			maxRec, haveMax = conversion.BytesToUint64(v), true
		default:
			foreign = append(foreign, fmt.Sprintf("%x", k))
		}
		return nil
	})
	return
}

func checkGraph(b diskstore.Bucket, want map[uint64]bool, degree int, when string) (viols []schedlib.V, digest string) {
	fail := func(sig, f string, a ...any) {
		if len(viols) < 8 {
			viols = append(viols, schedlib.V{Sig: sig, Detail: when + ": " + fmt.Sprintf(f, a...)})
		}
	}
	edges, vecs, maxRec, haveMax, foreign := graphOf(b)
	for _, k := range foreign {
		fail("graph-bucket-foreign-key", "unexpected key %s", k)
	}
	for n := range want {
		if _, ok := edges[n]; !ok {
			fail("graph-node-missing", "no graph node for node id %d", n)
		}
		if !vecs[n] {
			fail("graph-vector-missing", "no stored vector for node id %d", n)
		}
	}
	var ids []uint64
	for n, es := range edges {
		ids = append(ids, n)
		if !want[n] {
			fail("graph-node-for-removed-point", "graph node %d was never inserted", n)
		}
		for _, t := range es {
			if t == n {
				fail("graph-self-edge", "node %d has an edge to itself", n)
			}
			if _, ok := edges[t]; !ok {
				fail("graph-dangling-edge", "node %d has an edge to %d which is not a node", n, t)
			}
		}
		if n != vamana.STARTID && len(es) > degree {
			fail("graph-degree-bound-exceeded", "node %d has %d edges %v, degree bound %d", n, len(es), es, degree)
		}
		if haveMax && n > maxRec {
			fail("graph-max-node-id-too-small", "node id %d in use, recorded maximum %d", n, maxRec)
		}
	}
	for n := range vecs {
		if !want[n] {
			fail("graph-vector-for-removed-point", "stored vector %d was never inserted", n)
		}
	}
	if !haveMax {
		fail("graph-max-node-id-missing", "graph persisted without %s", vamana.MAXNODEIDKEY)
	}
	sort.Slice(ids, func(i, j int) bool { return ids[i] < ids[j] })
	var sb strings.Builder
	for _, n := range ids {
		es := append([]uint64{}, edges[n]...)
		sort.Slice(es, func(i, j int) bool { return es[i] < es[j] })
		fmt.Fprintf(&sb, "%d%v", n, es)
	}
	return viols, sb.String()
}

func runWorkers(raw json.RawMessage, prefix []string) (*vsched.Trace, []schedlib.V, string) {
	var p WProgram
	if err := json.Unmarshal(raw, &p); err != nil {
		panic(err)
	}
	params := models.IndexVectorVamanaParameters{VectorSize: uint(len(p.Start)), DistanceMetric: models.DistanceEuclidean, SearchSize: p.SearchSize, DegreeBound: p.Degree, Alpha: p.Alpha}
	bucket := diskstore.NewMemBucket(false)
	idx, err := vamana.NewIndexVamana("workers", params, bucket)
	if err != nil {
		panic(err)
	}
	if err := idx.VerifSetStartVector(p.Start); err != nil {
		panic(err)
	}
	want := map[uint64]bool{vamana.STARTID: true}
	var viols []schedlib.V
	next := uint64(vamana.STARTID + 1)
	// the base graph: one batch per point, one worker (no scheduler is active: the shimmed locks are the real ones)
	for _, vec := range p.Base {
		c := vamana.IndexVectorChange{Id: next, Vector: vec}
		next++
		if err := idx.VerifBeginInserts([]vamana.IndexVectorChange{c}); err != nil {
			panic(err)
		}
		if err := idx.VerifInsertSingle(c); err != nil {
			panic(fmt.Sprintf("base insert failed: %v", err))
		}
		if err := idx.VerifEndInserts(); err != nil {
			panic(err)
		}
		want[c.Id] = true
	}
	if len(p.Base) == 0 {
		// nothing was flushed yet: an index that was never written persists nothing
	} else if v, _ := checkGraph(bucket, want, p.Degree, "base graph (sequential)"); len(v) > 0 {
		// a malformed graph without any concurrency belongs to the history phases; report it all the same
		viols = append(viols, v...)
	}
	var batch []vamana.IndexVectorChange
	for _, vec := range p.Batch {
		batch = append(batch, vamana.IndexVectorChange{Id: next, Vector: vec})
		want[next] = true
		next++
	}
	if err := idx.VerifBeginInserts(batch); err != nil {
		panic(err)
	}
	nw := p.workers()
	errs := make([]error, nw)
	tr := vsched.Run(vsched.Options{Fast: true, MaxSteps: 4000}, prefix, func(s *vsched.Sched) {
		for w := 0; w < nw; w++ {
			w := w
			s.Go(fmt.Sprintf("W%d", w+1), func() {
				for i, c := range batch {
					if p.Assign[i] != w {
						continue
					}
					if err := idx.VerifInsertSingle(c); err != nil {
						errs[w] = err
						return // a worker stops at its first error, like utils.SinkWithContext
					}
				}
			})
		}
	})
	if tr.Diverged != "" || tr.Deadlock || tr.Unsettled || tr.Horizon {
		return tr, viols, ""
	}
	for w, e := range errs {
		if e != nil {
			viols = append(viols, schedlib.V{Sig: "insert-worker-failed", Detail: fmt.Sprintf("worker %d: %v", w+1, e)})
		}
	}
	if len(viols) > 0 {
		return tr, viols, "failed"
	}
	if err := idx.VerifEndInserts(); err != nil {
		viols = append(viols, schedlib.V{Sig: "flush-failed-after-workers", Detail: err.Error()})
		return tr, viols, "failed"
	}
	v, digest := checkGraph(bucket, want, p.Degree, fmt.Sprintf("after the batch of %d inserts by %d workers", len(batch), nw))
	viols = append(viols, v...)
	// a cold index over the same bucket must be able to search the whole graph (no search fails on what the workers left)
	cold, err := vamana.NewIndexVamana("workers-cold", params, bucket)
	if err == nil {
		_, res, serr := cold.Search(context.Background(), models.SearchVectorVamanaOptions{Vector: p.Start, Limit: len(want), SearchSize: len(want) + 5}, nil)
		if serr != nil {
			viols = append(viols, schedlib.V{Sig: "search-failed-after-workers", Detail: serr.Error()})
		}
		for _, r := range res {
			if !want[r.NodeId] || r.NodeId == vamana.STARTID {
				viols = append(viols, schedlib.V{Sig: "search-surfaced-foreign-node", Detail: fmt.Sprintf("node %d", r.NodeId)})
			}
		}
	} else {
		viols = append(viols, schedlib.V{Sig: "cold-open-failed-after-workers", Detail: err.Error()})
	}
	return tr, viols, p.Name + "|" + digest
}

func unit(dim, i int) []float32 {
	v := make([]float32, dim)
	v[i%dim] = 1
	return v
}

// workerPrograms: graphs small enough for the degree bound to bind at once
// (the package does not impose the HTTP layer's minimum of 32 - same code
// path, reachable with a handful of nodes), with mutually equidistant points
// (robust pruning removes nothing, every node fills up to the bound) and with
// lattice points (pruning does remove), base graphs of 0..5 points so that the
// existing nodes sit below, one below and at the bound, and batches of 2 and 3
// inserts dealt to 2 and 3 workers in every order-preserving way.
func workerPrograms(quick bool) (two, three []any) {
	const dim = 8
	start := make([]float32, dim)
	for i := range start {
		start[i] = 0.35355338 // unit vector, equidistant from all one-hot points
	}
	lat := [][]float32{{0, 0}, {1, 0}, {0, 1}, {1, 1}, {2, 0}, {0, 2}, {2, 2}, {1, 2}, {3, 1}}
	lat8 := func(i int) []float32 {
		v := make([]float32, dim)
		copy(v, lat[i%len(lat)])
		return v
	}
	degrees := []int{2, 3}
	alphas := []float32{1.2}
	if !quick {
		degrees = []int{2, 3, 4}
		alphas = []float32{1.0, 1.2, 2.0}
	}
	for _, fam := range []string{"equidistant", "lattice"} {
		pt := unit
		if fam == "lattice" {
			pt = func(_ int, i int) []float32 { return lat8(i) }
		}
		for _, deg := range degrees {
			for _, alpha := range alphas {
				maxBase := deg + 2
				for nb := 0; nb <= maxBase; nb++ {
					var base [][]float32
					for i := 0; i < nb; i++ {
						base = append(base, pt(dim, i))
					}
					mk := func(nbatch int, assign []int) WProgram {
						var batch [][]float32
						for i := 0; i < nbatch; i++ {
							batch = append(batch, pt(dim, nb+i))
						}
						return WProgram{Name: fmt.Sprintf("%s/deg%d/alpha%.1f/base%d/batch%d/assign%v", fam, deg, alpha, nb, nbatch, assign), Degree: deg, Alpha: alpha, SearchSize: 25, Start: start, Base: base, Batch: batch, Assign: assign}
					}
					two = append(two, mk(2, []int{0, 1}))
					for _, a := range [][]int{{0, 1, 0}, {0, 1, 1}, {0, 0, 1}} {
						two = append(two, mk(3, a))
					}
					three = append(three, mk(3, []int{0, 1, 2}))
				}
			}
		}
	}
	return
}

// workersPhase explores the worker programs and folds the numbers into the report.
func workersPhase(cfg *harness.Config, rep *harness.Report) {
	p := pool.New(pool.Options{CPUsPerWorker: 1, JobTimeout: 300 * time.Second})
	two, three := workerPrograms(cfg.Quick())
	type phase struct {
		name     string
		programs []any
		bound    int
	}
	phases := []phase{{"two workers, pre-emption bound 2", two, 2}, {"three workers, pre-emption bound 1", three, 1}}
	if !cfg.Quick() {
		phases = []phase{{"two workers, pre-emption bound 3", two, 3}, {"three workers, pre-emption bound 2", three, 2}}
	}
	if b := cfg.Extra["wbound"]; b != "" {
		phases = []phase{{"two workers, pre-emption bound " + b, two, int(b[0] - '0')}}
	}
	sigSeen := map[string]int{}
	info := map[string]any{}
	var execs, steps, div, hor int64
	outcomesBefore := rep.OutcomeCount()
	for _, ph := range phases {
		before := rep.Exhaustive
		st := schedx.Explore(cfg, rep, p, ph.programs, ph.bound, 0, sigSeen)
		info[ph.name] = map[string]any{"programs": st.Programs, "executions": st.Executions, "steps": st.Steps, "completed": rep.Exhaustive || !before}
		execs += st.Executions
		steps += st.Steps
		div += st.Diverged
		hor += st.Horizon
	}
	rep.Set("workers_phase", info)
	rep.Set("workers_phase_executions", execs)
	rep.Set("workers_phase_scheduler_steps", steps)
	rep.Set("workers_phase_distinct_final_graphs", rep.OutcomeCount()-outcomesBefore)
	rep.Set("workers_phase_replay_divergences", div)
	if div > 0 {
		rep.NotExhaustive(fmt.Sprintf("workers phase: %d executions diverged while replaying their prefix (never a verdict)", div))
	}
	if hor > 0 {
		rep.NotExhaustive(fmt.Sprintf("workers phase: %d executions hit the step horizon", hor))
	}
	if len(sigSeen) > 0 {
		rep.Set("workers_phase_violation_counts", sigSeen)
	}
}

// replayWorkers re-runs one recorded schedule five times.
func replayWorkers(rep *harness.Report, r schedx.Replay) {
	for i := 0; i < 5; i++ {
		tr, viols, _ := runWorkers(r.Program, r.Choices)
		fmt.Printf("replay %d: %d steps, diverged=%q deadlock=%v, %d violation(s)\n", i+1, len(tr.Steps), tr.Diverged, tr.Deadlock, len(viols))
		if i == 4 {
			if tr.Deadlock {
				rep.Violate(harness.Violation{Sig: "deadlock", Detail: fmt.Sprintf("no transition enabled while %v are unfinished", tr.Stuck), Replay: r})
			}
			for _, v := range viols {
				rep.Violate(harness.Violation{Sig: v.Sig, Detail: v.Detail, Replay: r})
			}
		}
	}
}
