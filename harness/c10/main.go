// C10 — the persisted similarity graph stays well-formed after every write.
package main

import (
	"encoding/json"
	"fmt"
	"time"

	"github.com/semafind/semadb/models"
	sl "semaverif/harness/shardlib"

	"semaverif/engine/harness"
	"semaverif/engine/pool"
	"semaverif/engine/schedx"
	"semaverif/engine/seqx"
	"semaverif/harness/schedlib"
)

const prop = "vec"

type cfgT struct {
	Inst sl.InstCfg `json:"inst"`
	Dim  int        `json:"dim"`
	// Nested: the graph index sits on the nested property path "m.v" (the vector is a member of the
	// object "m"), so that an update can reach it through its parent object
	Nested bool `json:"nested,omitempty"`
}

func onehot(dim int, idx ...int) []float32 {
	v := make([]float32, dim)
	for _, i := range idx {
		v[i] = 1 / float32(len(idx))
	}
	return v
}

func f32(v float32) *float32 { return &v }

const nestedProp = "m.v"

// nestedSymbols: the vector lives inside the object "m"; it is set, moved and removed by updates
// that name the parent object (replace it, drop it) - never the dotted path itself.
func nestedSymbols(dim int) *sl.Symbols {
	lat := sl.Lattice(16, dim)
	d := func(i int) sl.Doc { return sl.Doc{"m": sl.Doc{"v": lat[i], "tag": int64(i)}, "k": int64(i)} }
	return sl.NewSymbols(
		sl.Op{Name: "ins1", Kind: "ins", Ids: []int{1}, Docs: []sl.Doc{d(0)}},
		sl.Op{Name: "ins2,3,4", Kind: "ins", Ids: []int{2, 3, 4}, Docs: []sl.Doc{d(1), d(2), d(3)}},
		sl.Op{Name: "upd2(parent replaced, vector gone)", Kind: "upd", Ids: []int{2}, Docs: []sl.Doc{{"m": sl.Doc{"tag": int64(99)}}}},
		sl.Op{Name: "upd3(parent _delete)", Kind: "upd", Ids: []int{3}, Docs: []sl.Doc{{"m": "_delete"}}},
		sl.Op{Name: "upd2,3(parent replaced, vector moved)", Kind: "upd", Ids: []int{2, 3}, Docs: []sl.Doc{{"m": sl.Doc{"v": lat[8]}}, {"m": sl.Doc{"v": lat[9]}}}},
		sl.Op{Name: "upd1(other field)", Kind: "upd", Ids: []int{1}, Docs: []sl.Doc{{"k": int64(77)}}},
		sl.Op{Name: "del2", Kind: "del", Ids: []int{2}},
		sl.Op{Name: "del1,3", Kind: "del", Ids: []int{1, 3}},
		sl.Op{Name: "ins2,5(reuse)", Kind: "ins", Ids: []int{2, 5}, Docs: []sl.Doc{d(10), d(11)}},
	)
}

func symbols(dim int) *sl.Symbols {
	lat := sl.Lattice(16, dim)
	d := func(i int) sl.Doc { return sl.Doc{prop: lat[i], "k": int64(i)} }
	syms := sl.NewSymbols(
		sl.Op{Name: "ins1", Kind: "ins", Ids: []int{1}, Docs: []sl.Doc{d(0)}},
		sl.Op{Name: "ins2,3,4", Kind: "ins", Ids: []int{2, 3, 4}, Docs: []sl.Doc{d(1), d(2), d(3)}},
		sl.Op{Name: "ins5(no vector),6", Kind: "ins", Ids: []int{5, 6}, Docs: []sl.Doc{{"k": int64(5)}, d(5)}},
		sl.Op{Name: "ins7,8(no vector)", Kind: "ins", Ids: []int{7, 8}, Docs: []sl.Doc{{"k": int64(7)}, {"k": int64(8)}}},
		sl.Op{Name: "upd8,7(add vectors, later point first)", Kind: "upd", Ids: []int{8, 7}, Docs: []sl.Doc{{prop: lat[12]}, {prop: lat[13]}}},
		sl.Op{Name: "upd1(move)", Kind: "upd", Ids: []int{1}, Docs: []sl.Doc{{prop: lat[7]}}},
		sl.Op{Name: "upd1(move back)", Kind: "upd", Ids: []int{1}, Docs: []sl.Doc{{prop: lat[0]}}},
		sl.Op{Name: "upd(mix: 2 move, 3 remove, 5 add)", Kind: "upd", Ids: []int{2, 3, 5}, Docs: []sl.Doc{{prop: lat[8]}, {prop: "_delete"}, {prop: lat[9]}}},
		sl.Op{Name: "upd3(add vector back)", Kind: "upd", Ids: []int{3}, Docs: []sl.Doc{{prop: lat[2]}}},
		sl.Op{Name: "upd1(non-vector field)", Kind: "upd", Ids: []int{1}, Docs: []sl.Doc{{"k": int64(99)}}},
		sl.Op{Name: "del1", Kind: "del", Ids: []int{1}},
		sl.Op{Name: "del2,3,4(neighbourhood)", Kind: "del", Ids: []int{2, 3, 4}},
		sl.Op{Name: "del all", Kind: "del", Ids: []int{1, 2, 3, 4, 5, 6}},
		sl.Op{Name: "ins1,2(reuse ids, new places)", Kind: "ins", Ids: []int{1, 2}, Docs: []sl.Doc{d(10), d(11)}},
		// batches whose storage transaction fails to commit after the graph work is done
		sl.Op{Name: "ins9,10,11 !commit-fails", Kind: "ins", Ids: []int{9, 10, 11}, Docs: []sl.Doc{d(12), d(13), d(14)}},
		sl.Op{Name: "del2,3,4(neighbourhood) !commit-fails", Kind: "del", Ids: []int{2, 3, 4}},
		sl.Op{Name: "upd1(move) !commit-fails", Kind: "upd", Ids: []int{1}, Docs: []sl.Doc{{prop: lat[7]}}},
	)
	if dim < 48 {
		return syms
	}
	// 40 mutually equidistant points (one-hot vectors): robust pruning removes
	// nothing, so every node runs into the degree bound (validation forces
	// degreeBound >= 32)
	forty := sl.Op{Name: "ins40(equidistant)", Kind: "ins"}
	for i := 0; i < 40; i++ {
		forty.Ids = append(forty.Ids, 101+i)
		forty.Docs = append(forty.Docs, sl.Doc{prop: onehot(dim, i), "k": int64(100 + i)})
	}
	syms.Add(forty)
	syms.Add(sl.Op{Name: "del10 of the 40", Kind: "del", Ids: []int{101, 103, 105, 107, 109, 111, 113, 115, 117, 119}})
	syms.Add(sl.Op{Name: "upd5 of the 40 (move between others)", Kind: "upd", Ids: []int{121, 123, 125, 127, 129}, Docs: []sl.Doc{{prop: onehot(dim, 1, 2)}, {prop: onehot(dim, 3, 4)}, {prop: onehot(dim, 5, 6)}, {prop: onehot(dim, 7, 8)}, {prop: onehot(dim, 9, 10, 11)}}})
	more := sl.Op{Name: "ins8 more equidistant", Kind: "ins"}
	for i := 0; i < 8; i++ {
		more.Ids = append(more.Ids, 201+i)
		more.Docs = append(more.Docs, sl.Doc{prop: onehot(dim, 40+i), "k": int64(200 + i)})
	}
	syms.Add(more)
	return syms
}

func factory(raw json.RawMessage) (seqx.System, error) {
	var c cfgT
	if err := json.Unmarshal(raw, &c); err != nil {
		return nil, err
	}
	in, err := sl.NewInst(c.Inst)
	if err != nil {
		return nil, err
	}
	prop, syms := prop, symbols(c.Dim)
	if c.Nested {
		prop, syms = nestedProp, nestedSymbols(c.Dim)
	}
	params := *c.Inst.Schema[prop].VectorVamana
	var uni []int
	for i := 1; i <= 6; i++ {
		uni = append(uni, i)
	}
	return &sl.ShardSystem{In: in, M: sl.NewModel(c.Inst.Schema, in.Cfg.MaxPointSize), Syms: syms,
		Battery: func(s *sl.ShardSystem) {
			s.In.GraphCheck(&s.Obs, s.M, prop, params)
			s.In.RawPointStore(&s.Obs, s.M)
			// a search must never fail on, or surface, a removed point
			qc := sl.VamanaQueryCfg{Prop: prop, Params: params, Queries: [][]float32{onehot(c.Dim, 0), onehot(c.Dim, 1, c.Dim-1)}, Limits: []int{75}, SearchSizes: []int{75}, Weights: []*float32{nil}, Filters: []sl.NamedFilter{{Name: "none"}}, InsertOnly: s.InsertOnly()}
			s.In.VamanaBattery(&s.Obs, s.M, qc)
		}}, nil
}

func master(cfg *harness.Config, rep *harness.Report) {
	rep.Rule = "all write histories up to the depth over batches built to hurt the graph (mixed add/move/remove of the vector in one batch, deletion of a whole neighbourhood, delete-all then re-insert with every node id reused, repeated moves, vectorless points, vectors added to several vectorless points in one batch with the later point first), from the empty shard and from 40 mutually equidistant points (one-hot vectors: pruning removes nothing, so the degree bound binds) with cluster-level deletes/moves/inserts, x alpha {1.1,1.5} x degreeBound {32,64} x {warm, reopened}; after every batch the bucket dump is checked: node set = vector set = entry node + live points with the field, every edge target exists and differs from its source, out-degree <= bound except the entry node, recorded max id bounds all ids, point store bijective, free list disjoint from live ids; plus a full-window search that must not fail or surface a removed point.  WORKERS PHASE (the insert workers of one batch, which the history phases run one at a time): 2 and 3 scheduler threads around the real insertSinglePoint of one index over a memory bucket, node.go's locks redirected to the scheduler shim; programs = {mutually equidistant, lattice} points x degree bound {2,3} (thorough: 2..4; the package does not impose the HTTP minimum of 32, same code path) x alpha {1.2} (thorough: 1.0, 1.2, 2.0) x base graph of 0..bound+2 sequentially inserted points x batches of 2 and 3 inserts dealt to the workers in every order-preserving way; every interleaving at the lock operations (RLock/RUnlock/Lock-announce/Lock-acquire/Unlock of edgesMu and neighLoadMu) with at most 2 pre-emptions for two workers and 1 for three (thorough: 3 and 2), no deadlock, no worker error, then the same bucket-dump invariants and a cold full-window search"
	rep.Assumptions = []string{"duplicate edges are counted, not flagged (the statement does not forbid them)", "entry vector random and one insert worker in the history phases; in the workers phase the entry vector is fixed, the workers are the harness's threads calling insertSinglePoint (accessor added by overlay) and the steps around them (max-node-id update, Fit, flush) are replayed from insertUpdateDelete for insert-only batches", "workers phase: sequentially consistent interleavings at lock operations; accesses outside any lock are the free-running race pass's subject (C09)"}
	p := pool.New(pool.Options{CPUsPerWorker: 2, JobTimeout: 60 * time.Second})
	syms := symbols(2)
	syms48 := symbols(48)
	if cfg.Replay != "" {
		var sr schedx.Replay
		if err := harness.LoadReplay(cfg.Replay, &sr); err == nil && sr.Program != nil {
			replayWorkers(rep, sr)
			return
		}
		var r seqx.Replay
		if err := harness.LoadReplay(cfg.Replay, &r); err != nil {
			panic(err)
		}
		seqx.ReplayOne(rep, p, r)
		return
	}
	depth, depth40 := 4, 2
	if !cfg.Quick() {
		depth, depth40 = 5, 3
	}
	small := []string{"ins1", "ins2,3,4", "ins5(no vector),6", "ins7,8(no vector)", "upd8,7(add vectors, later point first)", "upd1(move)", "upd1(move back)", "upd(mix: 2 move, 3 remove, 5 add)", "upd3(add vector back)", "upd1(non-vector field)", "del1", "del2,3,4(neighbourhood)", "del all", "ins1,2(reuse ids, new places)"}
	big := []string{"del10 of the 40", "upd5 of the 40 (move between others)", "ins8 more equidistant", "ins2,3,4", "del2,3,4(neighbourhood)", "upd1(move)", "ins1"}
	var specs []seqx.Spec
	for _, alpha := range []float32{1.1, 1.5} {
		for _, deg := range []int{32, 64} {
			mk := func(dim uint) models.IndexSchema {
				return models.IndexSchema{prop: {Type: models.IndexTypeVectorVamana, VectorVamana: &models.IndexVectorVamanaParameters{VectorSize: dim, DistanceMetric: models.DistanceEuclidean, SearchSize: 25, DegreeBound: deg, Alpha: alpha}}}
			}
			name := fmt.Sprintf("alpha%.1f/deg%d", alpha, deg)
			warm := cfgT{Inst: sl.InstCfg{Backend: "bbolt", CacheSize: -1, Schema: mk(2), Proxy: true}, Dim: 2}
			cold := cfgT{Inst: sl.InstCfg{Backend: "bbolt", CacheSize: -1, ReopenEachOp: true, Schema: mk(2), Proxy: true}, Dim: 2}
			warm48 := cfgT{Inst: sl.InstCfg{Backend: "bbolt", CacheSize: -1, Schema: mk(48), Proxy: true}, Dim: 48}
			cold48 := cfgT{Inst: sl.InstCfg{Backend: "bbolt", CacheSize: -1, ReopenEachOp: true, Schema: mk(48), Proxy: true}, Dim: 48}
			if deg == 32 || alpha == 1.1 || !cfg.Quick() {
				specs = append(specs, seqx.Spec{Name: name + "/warm", Cfg: warm, Alphabet: syms.Refs(small...), Depth: depth})
			}
			if deg == 32 {
				specs = append(specs, seqx.Spec{Name: name + "/warm/from40", Cfg: warm48, Alphabet: syms48.Refs(big...), Depth: depth40, Starts: [][]any{syms48.Refs("ins40(equidistant)")}})
				specs = append(specs, seqx.Spec{Name: name + "/cold/from40", Cfg: cold48, Alphabet: syms48.Refs(big...), Depth: depth40 - 1, Starts: [][]any{syms48.Refs("ins40(equidistant)")}})
			}
			if alpha == 1.1 && deg == 32 {
				specs = append(specs, seqx.Spec{Name: name + "/cold", Cfg: cold, Alphabet: syms.Refs(small...), Depth: depth - 1})
			}
			if deg == 32 {
				// failing commits leave the warm graph cache as it was: a failed batch followed by small successful ones
				failing := []string{"ins1", "ins2,3,4", "del1", "ins9,10,11 !commit-fails", "del2,3,4(neighbourhood) !commit-fails", "upd1(move) !commit-fails"}
				specs = append(specs, seqx.Spec{Name: name + "/warm/failing-commits", Cfg: warm, Alphabet: syms.Refs(failing...), Depth: depth})
			}
		}
	}
	// the index on a nested property path, reached by updates through its parent object
	{
		schema := models.IndexSchema{nestedProp: {Type: models.IndexTypeVectorVamana, VectorVamana: &models.IndexVectorVamanaParameters{VectorSize: 2, DistanceMetric: models.DistanceEuclidean, SearchSize: 25, DegreeBound: 32, Alpha: 1.1}}}
		all := nestedSymbols(2).Refs()
		specs = append(specs,
			seqx.Spec{Name: "nested-property/warm", Cfg: cfgT{Inst: sl.InstCfg{Backend: "bbolt", CacheSize: -1, Schema: schema, Proxy: true}, Dim: 2, Nested: true}, Alphabet: all, Depth: depth},
			seqx.Spec{Name: "nested-property/cold", Cfg: cfgT{Inst: sl.InstCfg{Backend: "bbolt", CacheSize: -1, ReopenEachOp: true, Schema: schema, Proxy: true}, Dim: 2, Nested: true}, Alphabet: all, Depth: depth - 1})
	}
	if cfg.Extra["workersonly"] == "" {
		seqx.Explore(cfg, rep, p, specs)
	}
	if cfg.Extra["noworkers"] == "" {
		workersPhase(cfg, rep)
	}
}

func main() {
	seqW, schedW := seqx.Worker(factory), schedlib.Handler(runWorkers)
	harness.Main("C10", func(raw json.RawMessage) (json.RawMessage, error) {
		var probe struct {
			Program json.RawMessage `json:"program"`
		}
		if json.Unmarshal(raw, &probe) == nil && probe.Program != nil {
			return schedW(raw)
		}
		return seqW(raw)
	}, master, "model_checking")
}
