// C14 — start-up rebalancing moves every record and shard to its owner without
// loss.  Enumeration of configurations (old/new server sets, placement seeds,
// the order in which the nodes run their start-up Sync) and of faults (the
// receive handler failing at chunk k of the t-th transfer; torn partial file),
// on real in-process nodes talking RPC over loopback.
package main

import (
	"encoding/json"
	"fmt"
	"math/rand"
	"os"
	"path/filepath"
	"runtime"
	"sort"
	"strings"
	"sync"
	"time"
	"unsafe"

	"github.com/cespare/xxhash"
	"github.com/google/uuid"
	"github.com/semafind/semadb/cluster"
	"github.com/semafind/semadb/diskstore"
	"github.com/semafind/semadb/models"
	cl "semaverif/harness/clusterlib"
	sl "semaverif/harness/shardlib"

	"semaverif/engine/harness"
	"semaverif/engine/pool"
)

type job struct {
	Old   int    `json:"old"` // bit mask over nodes A,B,C
	New   int    `json:"new"`
	Seed  int64  `json:"seed"`
	Order string `json:"order"` // e.g. "ABC", "CBA", "concurrent"
	// fault: the receive handler fails at chunk FailChunk of the FailXfer-th
	// shard transfer (1-based, counted over the whole world); 0 = no fault
	FailXfer  int  `json:"failXfer"`
	FailChunk int  `json:"failChunk"`
	Corrupt   bool `json:"corrupt,omitempty"` // instead of failing, the chunk arrives with its last byte flipped
	Torn      int  `json:"torn"`              // after the failed run truncate the partial destination file: -1 untouched, 0, 1, or 2 = size-1
	BigFile   int  `json:"bigFile"`           // add a synthetic shard file of this many bytes (0 = none)
	// Then: after the interrupted run the server list changes once more (bit mask; 0 = it stays New):
	// the recovery synchronisations run with this list, starting from whatever the interrupted move left
	Then int `json:"then,omitempty"`
	// Ports: the loopback ports of nodes A, B, C.  Server names contain the port and routing hashes
	// server names, so a world is only reproduced with the ports it ran with (a replay file carries them).
	Ports []int `json:"ports,omitempty"`
}

type viol struct {
	Sig    string `json:"sig"`
	Detail string `json:"detail"`
}

type result struct {
	Viols     []viol `json:"viols"`
	Transfers int    `json:"transfers"`
	Records   int    `json:"records"`
	Shards    int    `json:"shards"`
	Fired     bool   `json:"fired"`
	Checks    int64  `json:"checks"`
	Outcome   string `json:"outcome"`
	Leftover  int    `json:"leftover"` // phases after which goroutines of stopped nodes were still alive after 5 s
	Ports     []int  `json:"ports"`
	FiredBig  bool   `json:"firedBig"` // the fault hit a transfer of the synthetic multi-chunk file
}

func (r *result) v(sig, format string, a ...any) {
	if len(r.Viols) < 8 {
		r.Viols = append(r.Viols, viol{sig, fmt.Sprintf(format, a...)})
	}
}

var names = []string{"A", "B", "C"}

type world struct {
	root  string
	specs map[string]cl.NodeSpec
	plan  models.UserPlan
}

func members(mask int) []string {
	var out []string
	for i, n := range names {
		if mask&(1<<uint(i)) != 0 {
			out = append(out, n)
		}
	}
	return out
}

func (w *world) hosts(mask int) []string {
	var out []string
	for _, n := range members(mask) {
		out = append(out, w.specs[n].Host())
	}
	return out
}

func (w *world) start(mask int, servers []string, serve bool) (map[string]*cluster.ClusterNode, error) {
	nodes := map[string]*cluster.ClusterNode{}
	for _, n := range members(mask) {
		c, err := cl.Start(w.specs[n], servers, cl.Options{MaxShardPointCount: 2, RpcRetries: 1, RpcTimeout: 20}, serve)
		if err != nil {
			return nil, fmt.Errorf("start %s: %w", n, err)
		}
		nodes[n] = c
	}
	return nodes, nil
}

// syncWorkersAlive reports whether a goroutine of some node is still inside the
// start-up synchronisation (sending a shard file or collection records).
// inDatabaseMapping reports whether b points into a memory-mapped database file of this process
// (a line of /proc/self/maps whose path ends in .bbolt).  It does not touch the memory.
func inDatabaseMapping(b []byte) (string, bool) {
	if len(b) == 0 {
		return "", false
	}
	addr := uint64(uintptr(unsafe.Pointer(&b[0])))
	maps, err := os.ReadFile("/proc/self/maps")
	if err != nil {
		return "", false
	}
	for _, l := range strings.Split(string(maps), "\n") {
		f := strings.Fields(l)
		if len(f) < 6 || !strings.HasSuffix(f[5], ".bbolt") {
			continue
		}
		var lo, hi uint64
		if _, err := fmt.Sscanf(f[0], "%x-%x", &lo, &hi); err == nil && addr >= lo && addr < hi {
			return filepath.Base(filepath.Dir(f[5])) + "/" + filepath.Base(f[5]), true
		}
	}
	return "", false
}

func syncWorkersAlive() bool {
	buf := make([]byte, 1<<20)
	dump := string(buf[:runtime.Stack(buf, true)])
	return strings.Contains(dump, "cluster.(*ClusterNode).sendShardFile") || strings.Contains(dump, "cluster.(*ClusterNode).syncShards") || strings.Contains(dump, "cluster.(*ClusterNode).syncUserCollections")
}

func stop(nodes map[string]*cluster.ClusterNode) {
	for _, c := range nodes {
		c.VerifDropRPCClients()
	}
	for _, c := range nodes {
		c.VerifShardManager().VerifCloseAllShards() // a process exit releases the shard file locks
		c.Close()
	}
}

var users = []string{"alice", "alice_eu", "bob", "bob2"} // two pairs in which one id extends the other (records of such users are adjacent in key order)

func doc(u string, i int) sl.Doc {
	return sl.Doc{"a": int64(i), "owner": u, "pad": strings.Repeat("x", 50+i)}
}

// fileInventory: shard files per node: relative path -> (size, xxhash)
type fileInfo struct {
	Size int64
	Hash uint64
}

func (w *world) files(node string) map[string]fileInfo {
	out := map[string]fileInfo{}
	base := filepath.Join(w.specs[node].ShardRoot(), cluster.USERCOLSDIR)
	filepath.Walk(base, func(p string, info os.FileInfo, err error) error {
		if err != nil || info.IsDir() || filepath.Base(p) != "sharddb.bbolt" {
			return nil
		}
		b, err := os.ReadFile(p)
		if err != nil {
			return nil
		}
		rel, _ := filepath.Rel(base, p)
		out[rel] = fileInfo{int64(len(b)), xxhash.Sum64(b)}
		return nil
	})
	return out
}

// records: node database user-collection records per node
func (w *world) records(node string) map[string]string {
	out := map[string]string{}
	db, err := diskstore.Open(filepath.Join(w.specs[node].Dir, "nodedb.bbolt"))
	if err != nil {
		return out
	}
	defer db.Close()
	db.Read(func(bm diskstore.BucketManager) error {
		b, err := bm.Get(cluster.USERCOLSBUCKETKEY)
		if err != nil {
			return nil
		}
		return b.ForEach(func(k, v []byte) error {
			out[string(k)] = fmt.Sprintf("%x", xxhash.Sum64(v))
			return nil
		})
	})
	return out
}

func worker(raw json.RawMessage) (json.RawMessage, error) {
	var j job
	if err := json.Unmarshal(raw, &j); err != nil {
		return nil, err
	}
	res := &result{}
	uuid.SetRand(rand.New(rand.NewSource(j.Seed)))
	w := &world{root: cl.TempRoot("c14"), specs: map[string]cl.NodeSpec{}, plan: models.UserPlan{Name: "p", MaxCollections: 5, MaxCollectionPointCount: 100, MaxPointSize: 1 << 16}}
	defer os.RemoveAll(w.root)
	ports := j.Ports
	if len(ports) != 3 {
		ports = cl.FreePorts(3)
	}
	res.Ports = ports
	for i, n := range names {
		w.specs[n] = cl.NodeSpec{Name: n, Port: ports[i], Dir: cl.NodeDir(w.root, n)}
	}
	all := j.Old | j.New | j.Then
	final := j.New
	if j.Then > 0 {
		final = j.Then
	}
	// ---- 1. the old cluster stores the data where the old routing puts it ----
	oldHosts := w.hosts(j.Old)
	nodes, err := w.start(j.Old, oldHosts, true)
	if err != nil {
		return nil, err
	}
	entry := nodes[members(j.Old)[0]]
	want := map[string]map[int]sl.Doc{} // user -> point -> doc
	for ui, u := range users {
		col := models.Collection{UserId: u, Id: "col", Replicas: 1, UserPlan: w.plan, IndexSchema: models.IndexSchema{"a": {Type: models.IndexTypeInteger}}}
		if err := entry.CreateCollection(col); err != nil {
			stop(nodes)
			return nil, fmt.Errorf("create: %w", err)
		}
		want[u] = map[int]sl.Doc{}
		n := 2 + ui // 2..5 points => 1..3 shards of 2
		var pts []models.Point
		for i := 1; i <= n; i++ {
			id := ui*10 + i
			d := doc(u, id)
			want[u][id] = sl.Canon(d)
			pts = append(pts, models.Point{Id: sl.UUID(id), Data: sl.Encode(d)})
		}
		c2, _ := entry.GetCollection(u, "col")
		c2.UserPlan = w.plan
		if failed, err := entry.InsertPoints(c2, pts); err != nil || len(failed) > 0 {
			stop(nodes)
			return nil, fmt.Errorf("insert: %v %v", err, failed)
		}
	}
	stop(nodes)
	// a synthetic multi-chunk shard file (never opened as a database) on the first old node
	if j.BigFile > 0 {
		dir := filepath.Join(w.specs[members(j.Old)[0]].ShardRoot(), cluster.USERCOLSDIR, "aaabig", "bigc", "00000000-0000-4000-8000-0000000000b1")
		os.MkdirAll(dir, 0o755)
		buf := make([]byte, j.BigFile)
		for i := range buf {
			buf[i] = byte(i*7 + i>>13)
		}
		os.WriteFile(filepath.Join(dir, "sharddb.bbolt"), buf, 0o644)
	}
	// ---- inventory before ----
	origFiles := map[string]fileInfo{}
	origRecords := map[string]string{}
	for _, n := range members(j.Old) {
		for k, v := range w.files(n) {
			if _, dup := origFiles[k]; dup {
				res.v("harness-duplicate-shard-before-sync", "%s", k)
			}
			origFiles[k] = v
		}
		for k, v := range w.records(n) {
			origRecords[k] = v
		}
	}
	res.Shards, res.Records = len(origFiles), len(origRecords)
	newHosts := w.hosts(j.New)
	// how many transfers does the new routing need?
	for rel := range origFiles {
		shardId := filepath.Base(filepath.Dir(rel))
		owner := cluster.RendezvousHash(shardId, newHosts, 1)[0]
		for _, n := range members(j.Old) {
			if _, has := w.files(n)[rel]; has && w.specs[n].Host() != owner {
				res.Transfers++
			}
		}
	}
	// ---- 2. restart with the new server list and synchronise ----
	runSync := func(withFault bool, hosts []string) []string {
		nodes, err := w.start(all, hosts, true)
		if err != nil {
			res.v("restart-failed", "%v", err)
			return nil
		}
		defer func() {
			stop(nodes)
			// Sync returns on the first error while its other per-destination workers
			// are still sending.  In production that error is fatal for the process, so
			// nothing of it survives into the next start; here the "dead" node's
			// senders must be gone before the next phase starts, or they would race
			// with it (remove a source directory the next Sync is reading).
			deadline := time.Now().Add(10 * time.Second)
			for syncWorkersAlive() && time.Now().Before(deadline) {
				time.Sleep(time.Millisecond)
			}
			if syncWorkersAlive() {
				res.Leftover++
			}
		}()
		xfer := 0
		var hookMu sync.Mutex
		// a record that is sent must not be a slice of the sender's database memory map: the read
		// transaction it came from has ended by the time the request is built and sent, so a write
		// transaction (the clean-up after another destination's transfer) may remap or reuse it
		cluster.VerifSetNodeKeyValueHook = func(c *cluster.ClusterNode, a *cluster.RPCSetNodeKeyValueRequest) error {
			if a.Dest == c.MyHostname {
				return nil // receiving side: decoded values
			}
			for k, v := range a.KeyValues {
				if file, in := inDatabaseMapping(v); in {
					hookMu.Lock()
					res.v("record-sent-from-ended-read-transaction", "node %s sends record %s to %s as a slice of its own memory-mapped %s although the read transaction that produced it has ended (bbolt: values are valid for the life of the transaction only); a concurrent clean-up write transaction can remap or overwrite it: the record arrives damaged (and the sender then deletes its copy) or the process dies with SIGSEGV while encoding", c.MyHostname, k, a.Dest, file)
					hookMu.Unlock()
					break
				}
			}
			return nil
		}
		defer func() { cluster.VerifSetNodeKeyValueHook = nil }()
		cluster.VerifSendShardHook = nil
		if withFault {
			cluster.VerifSendShardHook = func(a *cluster.RPCSendShardRequest) error {
				hookMu.Lock()
				defer hookMu.Unlock()
				if a.ChunkIndex == 0 {
					xfer++
				}
				if xfer == j.FailXfer && a.ChunkIndex == j.FailChunk && !res.Fired {
					if j.Corrupt {
						if len(a.ChunkData) == 0 {
							return nil // the end marker carries no data
						}
						res.Fired = true
						res.FiredBig = a.UserId == "aaabig"
						a.ChunkData[len(a.ChunkData)-1] ^= 0xff
						return nil
					}
					res.Fired = true
					res.FiredBig = a.UserId == "aaabig"
					return fmt.Errorf("injected failure of the receive handler at chunk %d", a.ChunkIndex)
				}
				return nil
			}
		}
		defer func() { cluster.VerifSendShardHook = nil }()
		var errs []string
		order := j.Order
		if order == "concurrent" {
			var wg sync.WaitGroup
			var mu sync.Mutex
			for n, c := range nodes {
				wg.Add(1)
				go func(n string, c *cluster.ClusterNode) {
					defer wg.Done()
					if err := c.Sync(); err != nil {
						mu.Lock()
						errs = append(errs, n+": "+err.Error())
						mu.Unlock()
					}
				}(n, c)
			}
			wg.Wait()
		} else {
			for _, ch := range order {
				if c, ok := nodes[string(ch)]; ok {
					if err := c.Sync(); err != nil {
						errs = append(errs, string(ch)+": "+err.Error())
						// in main.go a failing Sync is log.Fatal: that node dies, the others go on
					}
				}
			}
		}
		sort.Strings(errs)
		return errs
	}
	faulty := j.FailXfer > 0
	errs := runSync(faulty, newHosts)
	if !faulty && len(errs) > 0 {
		res.v("sync-failed-without-fault", "%v", errs)
	}
	if faulty && res.Fired {
		// nothing may be lost by the interrupted run
		w.checkNothingLost(res, all, origFiles, origRecords, "after the interrupted synchronisation")
		if j.Torn >= 0 {
			w.tearPartial(all, origFiles, j.Torn)
		}
	}
	if (faulty && res.Fired) || j.Then > 0 {
		// the nodes start again (twice): a later synchronisation completes the move
		// (with a changed list also when the fault did not fire: then it is a second, undisturbed move)
		for round := 1; round <= 2; round++ {
			if e2 := runSync(false, w.hosts(final)); len(e2) > 0 && round == 2 {
				res.v("later-synchronisation-cannot-complete-the-move", "after the receive handler failed once (transfer %d, chunk %d), two further start-up synchronisations still fail: %v", j.FailXfer, j.FailChunk, e2)
			}
		}
	}
	// ---- 3. final placement ----
	if len(res.Viols) == 0 {
		jj := j
		jj.New = final
		w.checkPlacement(res, jj, all, origFiles, origRecords, want)
	}
	res.Outcome = fmt.Sprint(j.Old, j.New, j.Then, res.Transfers, res.Fired, len(res.Viols))
	return json.Marshal(res)
}

func (w *world) checkNothingLost(res *result, all int, origFiles map[string]fileInfo, origRecords map[string]string, when string) {
	for rel, fi := range origFiles {
		res.Checks++
		intact := false
		for _, n := range members(all) {
			if got, ok := w.files(n)[rel]; ok && got == fi {
				intact = true
			}
		}
		if !intact {
			res.v("shard-file-lost", "%s no node holds an intact copy of %s (%d bytes)", when, rel, fi.Size)
		}
	}
	for k, h := range origRecords {
		res.Checks++
		found := false
		for _, n := range members(all) {
			if w.records(n)[k] == h {
				found = true
			}
		}
		if !found {
			res.v("collection-record-lost", "%s no node holds the record %s", when, k)
		}
	}
}

// tearPartial truncates partial destination copies (files that differ from the original).
func (w *world) tearPartial(all int, origFiles map[string]fileInfo, mode int) {
	for _, n := range members(all) {
		for rel, fi := range w.files(n) {
			if orig, ok := origFiles[rel]; ok && fi != orig {
				p := filepath.Join(w.specs[n].ShardRoot(), cluster.USERCOLSDIR, rel)
				size := int64(0)
				switch mode {
				case 1:
					size = 1
				case 2:
					size = fi.Size - 1
				}
				if size < 0 {
					size = 0
				}
				os.Truncate(p, size)
			}
		}
	}
}

func (w *world) checkPlacement(res *result, j job, all int, origFiles map[string]fileInfo, origRecords map[string]string, want map[string]map[int]sl.Doc) {
	newHosts := w.hosts(j.New)
	hostOf := map[string]string{}
	for _, n := range names {
		hostOf[w.specs[n].Host()] = n
	}
	for rel, fi := range origFiles {
		shardId := filepath.Base(filepath.Dir(rel))
		owner := hostOf[cluster.RendezvousHash(shardId, newHosts, 1)[0]]
		for _, n := range members(all) {
			got, has := w.files(n)[rel]
			res.Checks++
			switch {
			case n == owner && !has:
				res.v("shard-not-on-its-owner", "shard %s must be on node %s after the synchronisation but is not there", rel, owner)
			case n == owner && got != fi:
				res.v("shard-copy-differs-from-original", "shard %s on its owner %s has %d bytes / hash %x, the original had %d / %x", rel, owner, got.Size, got.Hash, fi.Size, fi.Hash)
			case n != owner && has:
				res.v("shard-left-on-non-owner", "shard %s is still on node %s, its owner is %s", rel, n, owner)
			}
		}
	}
	for k, h := range origRecords {
		user := strings.Split(k, cluster.DBDELIMITER)[0]
		owner := hostOf[cluster.RendezvousHash(user, newHosts, 1)[0]]
		for _, n := range members(all) {
			got, has := w.records(n)[k]
			res.Checks++
			switch {
			case n == owner && (!has || got != h):
				res.v("record-not-on-its-owner", "collection record %s must be on node %s (present %v, identical %v)", k, owner, has, got == h)
			case n != owner && has:
				res.v("record-left-on-non-owner", "collection record %s is still on node %s, its owner is %s", k, n, owner)
			}
		}
	}
	if len(res.Viols) > 0 {
		return
	}
	// every point readable through every node of the new cluster
	nodes, err := w.start(j.New, newHosts, true)
	if err != nil {
		res.v("restart-failed", "%v", err)
		return
	}
	defer stop(nodes)
	for n, c := range nodes {
		for u, pts := range want {
			col, err := c.GetCollection(u, "col")
			if err != nil {
				res.v("collection-unreadable-after-sync", "node %s user %s: %v", n, u, err)
				continue
			}
			col.UserPlan = w.plan
			var ids []int
			for id := range pts {
				ids = append(ids, id)
			}
			sort.Ints(ids)
			got, err := c.SearchPoints(col, models.SearchRequest{Query: sl.IdQuery(append(ids, 999)...), Select: []string{"*"}, Limit: 100})
			res.Checks++
			if err != nil {
				res.v("points-unreadable-after-sync", "node %s user %s: %v", n, u, err)
				continue
			}
			if len(got) != len(pts) {
				res.v("points-missing-after-sync", "through node %s user %s has %d points, %d were stored", n, u, len(got), len(pts))
				continue
			}
			for _, r := range got {
				d, _ := sl.ResultDoc(r)
				if !sl.DocEqual(sl.Canon(d), pts[sl.UUIDIndex(r.Id)]) {
					res.v("point-changed-after-sync", "node %s user %s point %d", n, u, sl.UUIDIndex(r.Id))
				}
			}
		}
	}
}

func master(cfg *harness.Config, rep *harness.Report) {
	rep.Rule = "worlds = all ordered pairs of different non-empty server sets over {A,B,C} (grow, shrink, replace, disjoint) x placement seeds x Sync order (every node of old ∪ new runs its start-up Sync: all permutations, and all concurrently); data = 4 users with one collection of 2..5 points at 2 points per shard (1-3 shards each), created through the old cluster. Faults: for every world with transfers, the receive handler fails at chunk k in {0, 1 (= the end marker for single-chunk files), ...} of the t-th transfer, or a data chunk arrives with its last byte flipped (so only the checksum can tell); afterwards the partial destination file is left as is or truncated to 0 / 1 / size-1 bytes, all nodes restart and synchronise twice - with the same new server list, or with a server list that has changed once more (quick: back to the old list; thorough: every other list), so that the second move starts from what the interrupted one left. Oracle: after an interrupted run every record and an intact copy of every shard file still exists somewhere; after the (recovery) synchronisation every record and shard file is on exactly its RendezvousHash owner, byte-identical, and every point is readable through every new node. distinct_nontrivial = worlds in which at least one shard had to move"
	rep.Assumptions = []string{"a sender killed mid-run is modelled by its Sync returning an error (main.go exits); a receiver killed after writing chunk k leaves the same files as a failure before chunk k+1", "RpcRetries 1 (more retries sleep 2^i s)", "real kill -9 during write(2) is replaced by the enumeration of torn destination files"}
	p := pool.New(pool.Options{CPUsPerWorker: 2, JobTimeout: 300 * time.Second, NetNS: true})
	var jobs []job
	if cfg.Replay != "" {
		var j job
		if err := harness.LoadReplay(cfg.Replay, &j); err != nil {
			panic(err)
		}
		jobs = []job{j}
	} else {
		seeds := []int64{1}
		if !cfg.Quick() {
			seeds = []int64{1, 2, 3}
		}
		for old := 1; old < 8; old++ {
			for nw := 1; nw < 8; nw++ {
				if old == nw {
					continue
				}
				all := old | nw
				var orders []string
				ms := strings.Join(members(all), "")
				orders = append(orders, perms(ms)...)
				orders = append(orders, "concurrent")
				if cfg.Quick() && len(orders) > 3 {
					orders = []string{orders[0], orders[len(orders)-2], "concurrent"}
				}
				for _, seed := range seeds {
					for _, o := range orders {
						jobs = append(jobs, job{Old: old, New: nw, Seed: seed, Order: o, Torn: -1})
					}
					// faults: first order only
					maxXfer := 3
					if cfg.Quick() {
						maxXfer = 2
					}
					for x := 1; x <= maxXfer; x++ {
						for k := 0; k <= 1; k++ {
							torns := []int{-1}
							if k == 1 {
								torns = []int{-1, 0, 1, 2}
							}
							if cfg.Quick() && k == 1 {
								torns = []int{-1, 2}
							}
							for _, t := range torns {
								jobs = append(jobs, job{Old: old, New: nw, Seed: seed, Order: orders[0], FailXfer: x, FailChunk: k, Torn: t})
							}
							// the server list changes again before the interrupted move is completed:
							// back to the old list (quick), or to any other list (thorough)
							for then := 1; then < 8; then++ {
								if then == nw || (cfg.Quick() && (then != old || x > 1)) {
									continue
								}
								jobs = append(jobs, job{Old: old, New: nw, Seed: seed, Order: orders[0], FailXfer: x, FailChunk: k, Torn: -1, Then: then})
							}
							if k == 0 {
								// the data chunk of a (single-chunk) real shard file arrives damaged
								jobs = append(jobs, job{Old: old, New: nw, Seed: seed, Order: orders[0], FailXfer: x, FailChunk: 0, Torn: -1, Corrupt: true})
							}
						}
					}
				}
			}
		}
		// multi-chunk synthetic files: sizes around multiples of the 8 MiB chunk
		const chunk = 8 * 1024 * 1024
		sizes := []int{1, chunk - 1, chunk, chunk + 1, 2*chunk + 5}
		if cfg.Quick() {
			sizes = []int{chunk + 1}
		}
		if cfg.Quick() {
			// exact multiples of the chunk size (the sizes a growing bbolt file takes), one below and a
			// single byte: the fault-free move only (the thorough tier interrupts them at every chunk)
			for _, sz := range []int{1, chunk - 1, chunk, 2 * chunk} {
				jobs = append(jobs, job{Old: 1, New: 2, Seed: 1, Order: "AB", Torn: -1, BigFile: sz})
			}
		}
		for _, sz := range sizes {
			n := sz/chunk + 1
			jobs = append(jobs, job{Old: 1, New: 2, Seed: 1, Order: "AB", Torn: -1, BigFile: sz})
			for k := 0; k <= n+1; k++ {
				// the big file is found first or last by the walk; fail every transfer position once
				for x := 1; x <= 2; x++ {
					jobs = append(jobs, job{Old: 1, New: 2, Seed: 1, Order: "AB", FailXfer: x, FailChunk: k, Torn: -1, BigFile: sz})
					jobs = append(jobs, job{Old: 1, New: 2, Seed: 1, Order: "AB", FailXfer: x, FailChunk: k, Torn: -1, BigFile: sz, Corrupt: true})
					// the list goes back to [A] (or on to [C], [A B]) while B holds a partial copy
					for _, then := range []int{1, 4, 3} {
						jobs = append(jobs, job{Old: 1, New: 2, Seed: 1, Order: "AB", FailXfer: x, FailChunk: k, Torn: -1, BigFile: sz, Then: then})
					}
				}
			}
		}
	}
	raws := make([]json.RawMessage, len(jobs))
	for i, j := range jobs {
		raws[i], _ = json.Marshal(j)
	}
	results, err := p.RunAll(raws)
	if err != nil {
		panic(err)
	}
	fired := 0
	firedBig := 0
	moved := 0
	for i, r := range results {
		j := jobs[i]
		if r.Crashed || r.Hung {
			rep.Violate(harness.Violation{Sig: "process-crashed-or-hung-during-sync", Detail: fmt.Sprintf("%+v: %s", j, tailS(r.Stderr)), Replay: j})
			continue
		}
		if r.Err != "" {
			rep.NotExhaustive("harness error: " + r.Err)
			continue
		}
		var res result
		json.Unmarshal(r.Out, &res)
		rep.Evaluations++
		rep.Add("comparisons", res.Checks)
		rep.Outcome(res.Outcome)
		if res.Fired {
			fired++
		}
		if res.FiredBig {
			firedBig++
		}
		if res.Transfers > 0 {
			moved++
		}
		if res.Leftover > 0 {
			// goroutines of a stopped node outlived their phase: what this world reports
			// may be their interference, not the code's behaviour
			rep.NotExhaustive(fmt.Sprintf("world %+v: goroutines of a stopped node were still alive 5 s after its phase (result not used)", j))
			continue
		}
		j.Ports = res.Ports
		for _, v := range res.Viols {
			rep.Violate(harness.Violation{Sig: v.Sig, Detail: fmt.Sprintf("[old %v -> new %v (then %v), seed %d, sync order %s, fault: transfer %d chunk %d (corrupt=%v), torn %d, big file %d] %s", members(j.Old), members(j.New), members(j.Then), j.Seed, j.Order, j.FailXfer, j.FailChunk, j.Corrupt, j.Torn, j.BigFile, v.Detail), Replay: j})
		}
		if i%97 == 0 {
			rep.Sample(j)
		}
	}
	rep.DistinctNontrivial = int64(moved)
	rep.Set("worlds_and_fault_runs", len(jobs))
	rep.Set("server_names_fixed_by_network_namespace", p.NetNS())
	rep.Set("fault_runs_in_which_the_fault_fired", fired)
	rep.Set("big_file_transfers_interrupted", firedBig)
	if cfg.Replay == "" && firedBig == 0 {
		// the multi-chunk fault runs exist to interrupt the big file's transfer; if none did, the
		// enumeration has gone vacuous (e.g. the walk order changed) and must not pass for coverage
		rep.NotExhaustive("no fault run interrupted a transfer of the multi-chunk file")
	}
}

func perms(s string) []string {
	if len(s) <= 1 {
		return []string{s}
	}
	var out []string
	for i := range s {
		for _, p := range perms(s[:i] + s[i+1:]) {
			out = append(out, string(s[i])+p)
		}
	}
	return out
}

func tailS(s string) string {
	// the head of a crash report names the fault; the tail alone is some idle goroutine
	for _, mark := range []string{"fatal error:", "panic:", "unexpected fault address"} {
		if k := strings.Index(s, mark); k >= 0 {
			e := k + 3500
			if e > len(s) {
				e = len(s)
			}
			return s[k:e]
		}
	}
	if len(s) > 2500 {
		return s[len(s)-2500:]
	}
	return s
}

func main() {
	harness.Main("C14", worker, master, "fault_enumeration")
}
