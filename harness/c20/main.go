// C20 — distance functions equal their definitions on every vector length.
// Every length 1..4096 x slice offsets x value families, on the exported asm
// kernels, the functions the dispatcher selects, and the pure-Go fallbacks;
// bit metrics through the real binary vector store.
package main

import (
	"encoding/json"
	"fmt"
	"math"
	"math/bits"

	"github.com/semafind/semadb/diskstore"
	"github.com/semafind/semadb/distance"
	"github.com/semafind/semadb/distance/asm"
	"github.com/semafind/semadb/models"
	"github.com/semafind/semadb/shard/vectorstore"
	"semaverif/engine/harness"
	"semaverif/engine/pool"
)

type job struct {
	Kind    string `json:"kind"` // float | bits | bitsall | haversine
	Lo      int    `json:"lo"`
	Hi      int    `json:"hi"`
	Offsets []int  `json:"offsets"`
}

type viol struct {
	Sig    string `json:"sig"`
	Detail string `json:"detail"`
}

type result struct {
	Evals    int64    `json:"evals"`
	Nontriv  int64    `json:"nontriv"`
	Outcomes []string `json:"outcomes"`
	Viols    []viol   `json:"viols"`
	Sample   any      `json:"sample,omitempty"`
}

func (r *result) v(sig, format string, a ...any) {
	if len(r.Viols) < 6 {
		r.Viols = append(r.Viols, viol{sig, fmt.Sprintf(format, a...)})
	}
}

var famNames = []string{"zeros", "ones", "alt±1", "ramp", "subnormal", "big-small", "one-huge", "lfsr", "near-equal-large", "subnormal-times-large"}

func fill(dst []float32, fam, n, which int) {
	lf := uint32(0xACE1 + n*2654435761 + which*97)
	for i := 0; i < n; i++ {
		var v float32
		switch fam {
		case 0:
			v = 0
		case 1:
			v = 1
		case 2:
			if (i+which)%2 == 0 {
				v = 1
			} else {
				v = -1
			}
		case 3:
			v = float32(i+1+which) / float32(n)
		case 4:
			v = math.Float32frombits(uint32(1 + (i*7+which)%1000)) // subnormals
		case 5:
			if i%2 == 0 {
				v = 1e15
			} else {
				v = -1e15
			}
			if i%3 == which%3 {
				v = float32(i%7) * 0.125
			}
		case 6:
			v = 0.5
			pos := []int{0, 31, 32, n - 1}[(n+which)%4]
			if pos >= n {
				pos = n - 1
			}
			if i == pos {
				v = -3e18
			}
		case 7:
			lf ^= lf << 13
			lf ^= lf >> 17
			lf ^= lf << 5
			v = float32(int32(lf%2001)-1000) / 250
		case 8:
			// components around 100 that differ by 2^-10 between the operands: the
			// distance is tiny compared with the norms (an expanded-form kernel
			// |x|^2+|y|^2-2<x,y> cancels catastrophically here)
			v = 100 + float32(i%5) + float32(which)/1024
		case 9:
			// one operand subnormal (about 1e-40), the other 1e16: every product is an
			// ordinary float32 (about 1e-24) although one factor is not - a kernel
			// that treats subnormal inputs as zero returns 0 for a clearly non-zero
			// definition (a subnormal family in BOTH operands underflows in the
			// definition too and cannot tell)
			if which == 0 {
				v = math.Float32frombits(uint32(60000 + (i*7)%9000))
			} else {
				v = 1e16
			}
		}
		dst[i] = v
	}
}

type fimpl struct {
	name string
	kind string // dot | euclid
	fn   func(x, y []float32) float32
}

func floatImpls() []fimpl {
	eu, _ := distance.GetFloatDistanceFn(models.DistanceEuclidean)
	dt, _ := distance.GetFloatDistanceFn(models.DistanceDot)
	cs, _ := distance.GetFloatDistanceFn(models.DistanceCosine)
	return []fimpl{
		{"asm.Dot", "dot", asm.Dot},
		{"asm.SquaredEuclideanDistance", "euclid", asm.SquaredEuclideanDistance},
		{"dispatch:euclidean", "euclid", eu},
		{"dispatch:dot", "negdot", dt},
		{"dispatch:cosine", "cosine", cs},
		{"purego:dot", "dot", distance.VerifDotPureGo},
		{"purego:euclidean", "euclid", distance.VerifSquaredEuclideanPureGo},
	}
}

func reference(kind string, x, y []float32) (ref, mag float64) {
	for i := range x {
		a, b := float64(x[i]), float64(y[i])
		var t float64
		if kind == "euclid" {
			d := a - b
			t = d * d
			// error budget of the definition evaluated in float32 in any summation
			// order: the subtraction of two float32 values and the square each round
			// relative to their own result, the sum relative to the sum of the terms
			mag += t
		} else {
			t = a * b
			mag += math.Abs(t)
		}
		ref += t
	}
	switch kind {
	case "negdot":
		ref = -ref
	case "cosine":
		ref = 1 - ref
		mag += 1
	}
	return
}

func checkFloat(res *result, lo, hi int, offsets []int) {
	impls := floatImpls()
	nan := float32(math.NaN())
	const pad = 16
	bufX := make([]float32, 4096+2*pad+16)
	bufY := make([]float32, 4096+2*pad+16)
	for n := lo; n <= hi; n++ {
		for _, ox := range offsets {
			for _, oy := range offsets {
				for fam := range famNames {
					for i := range bufX {
						bufX[i], bufY[i] = nan, nan
					}
					x := bufX[pad+ox : pad+ox+n : pad+ox+n]
					y := bufY[pad+oy : pad+oy+n : pad+oy+n]
					fill(x, fam, n, 0)
					fill(y, fam, n, 1)
					for _, im := range impls {
						ref, mag := reference(im.kind, x, y)
						got := float64(im.fn(x, y))
						tol := 4*float64(n)*(1.0/(1<<23))*mag + 1e-37
						res.Evals++
						if math.IsNaN(got) || math.Abs(got-ref) > tol {
							res.v("float-distance-wrong:"+im.name, "%s on length %d (offsets %d/%d floats into the backing arrays, family %s): got %g, definition gives %g (tolerance %g); NaN means an element outside the slice was read", im.name, n, ox, oy, famNames[fam], got, ref, tol)
							continue
						}
						back := float64(im.fn(y, x))
						if math.Float64bits(back) != math.Float64bits(got) {
							res.v("float-distance-asymmetric:"+im.name, "%s length %d family %s: d(x,y)=%g d(y,x)=%g", im.name, n, famNames[fam], got, back)
						}
						if fam == 0 && got != refExactZero(im.kind) {
							res.v("float-distance-wrong:"+im.name, "%s on all-zero vectors of length %d: got %g", im.name, n, got)
						}
					}
					// identical operands: euclidean must be exactly 0
					for _, im := range impls {
						if im.kind == "euclid" {
							if d := im.fn(x, x); d != 0 {
								res.v("float-distance-wrong:"+im.name, "%s(x,x) = %g on length %d family %s", im.name, d, n, famNames[fam])
							}
							res.Evals++
						}
					}
				}
			}
		}
		if n%32 == 0 || n%32 == 31 || n%32 == 1 || n < 40 {
			res.Nontriv++ // block/tail boundary lengths
		}
	}
}

func refExactZero(kind string) float64 {
	if kind == "cosine" {
		return 1
	}
	return 0
}

// ---- bit metrics through the real binary store ----

func bitPattern(p, n, which int) []bool {
	b := make([]bool, n)
	lf := uint32(0xBEEF + n*40503 + which*7919)
	for i := range b {
		switch p {
		case 0: // all zero
		case 1:
			b[i] = true
		case 2:
			pos := []int{0, 63, 64, n - 1}[(n+which)%4]
			if pos >= n {
				pos = n - 1
			}
			b[i] = i == pos
		case 3:
			b[i] = (i+which)%2 == 0
		case 4:
			lf ^= lf << 13
			lf ^= lf >> 17
			lf ^= lf << 5
			b[i] = lf&1 == 1
		}
	}
	return b
}

func refBits(metric string, a, b []bool) float64 {
	diff, inter, union := 0, 0, 0
	for i := range a {
		if a[i] != b[i] {
			diff++
		}
		if a[i] && b[i] {
			inter++
		}
		if a[i] || b[i] {
			union++
		}
	}
	if metric == models.DistanceHamming {
		return float64(diff)
	}
	if union == 0 {
		return 0
	}
	return 1 - float64(inter)/float64(union)
}

func toFloats(b []bool, lowV, highV float32) []float32 {
	f := make([]float32, len(b))
	for i := range b {
		if b[i] {
			f[i] = highV
		} else {
			f[i] = lowV
		}
	}
	return f
}

type storeCfg struct {
	name   string
	metric string // bit metric
	mk     func(n int) (vectorstore.VectorStore, error)
	lo, hi float32 // float values standing for bit 0 / 1
	learn  bool
}

func storeCfgs() []storeCfg {
	thr := float32(0.25)
	mkQ := func(metric string, th *float32, trigger int) func(n int) (vectorstore.VectorStore, error) {
		return func(n int) (vectorstore.VectorStore, error) {
			q := &models.Quantizer{Type: models.QuantizerBinary, Binary: &models.BinaryQuantizerParamaters{Threshold: th, TriggerThreshold: trigger, DistanceMetric: metric}}
			return vectorstore.New(q, diskstore.NewMemBucket(false), models.DistanceEuclidean, n)
		}
	}
	return []storeCfg{
		{"metric=hamming", models.DistanceHamming, func(n int) (vectorstore.VectorStore, error) {
			return vectorstore.New(nil, diskstore.NewMemBucket(false), models.DistanceHamming, n)
		}, 0, 1, false},
		{"metric=jaccard", models.DistanceJaccard, func(n int) (vectorstore.VectorStore, error) {
			return vectorstore.New(nil, diskstore.NewMemBucket(false), models.DistanceJaccard, n)
		}, 0, 1, false},
		{"euclidean+binary(threshold 0.25,hamming)", models.DistanceHamming, mkQ(models.DistanceHamming, &thr, 0), 0.25, 0.2500001, false},
		{"euclidean+binary(learned,jaccard)", models.DistanceJaccard, mkQ(models.DistanceJaccard, nil, 2), -1, 3, true},
	}
}

func checkBitPair(res *result, sc storeCfg, n int, a, b []bool, tag string) {
	vs, err := sc.mk(n)
	if err != nil {
		res.v("bit-store-setup", "%s: %v", sc.name, err)
		return
	}
	fa, fb := toFloats(a, sc.lo, sc.hi), toFloats(b, sc.lo, sc.hi)
	if sc.learn {
		// two training points whose per-dimension mean is 1: bit = value > 1
		// lo=-1 -> 0, hi=3 -> 1; train on all-(-1) and all-3
		lowAll := make([]float32, n)
		highAll := make([]float32, n)
		for i := range lowAll {
			lowAll[i], highAll[i] = -1, 3
		}
		vs.Set(100, lowAll)
		vs.Set(101, highAll)
		if err := vs.Fit(); err != nil {
			res.v("bit-store-fit", "%s: %v", sc.name, err)
			return
		}
	}
	pa, err1 := vs.Set(2, fa)
	pb, err2 := vs.Set(3, fb)
	if err1 != nil || err2 != nil {
		res.v("bit-store-set", "%s: %v %v", sc.name, err1, err2)
		return
	}
	want := refBits(sc.metric, a, b)
	d1 := float64(vs.DistanceFromFloat(fa)(pb))
	d2 := float64(vs.DistanceFromPoint(pa)(pb))
	d3 := float64(vs.DistanceFromPoint(pb)(pa))
	d4 := float64(vs.DistanceFromFloat(fb)(pa))
	res.Evals += 4
	if math.Abs(d1-want) > 1e-6 || math.Abs(d2-want) > 1e-6 {
		res.v("bit-distance-wrong:"+sc.metric, "%s length %d %s: from-float %g, from-point %g, bit-count definition %g", sc.name, n, tag, d1, d2, want)
	}
	if d2 != d3 || d1 != d4 {
		res.v("bit-distance-asymmetric:"+sc.metric, "%s length %d %s: %g vs %g / %g vs %g", sc.name, n, tag, d2, d3, d1, d4)
	}
	res.Outcomes = append(res.Outcomes, fmt.Sprintf("%s/%g", sc.metric, want))
}

func worker(raw json.RawMessage) (json.RawMessage, error) {
	var j job
	if err := json.Unmarshal(raw, &j); err != nil {
		return nil, err
	}
	res := &result{}
	switch j.Kind {
	case "float":
		checkFloat(res, j.Lo, j.Hi, j.Offsets)
		res.Sample = map[string]any{"kind": "float", "lengths": []int{j.Lo, j.Hi}, "offsets": j.Offsets, "families": famNames, "implementations": 7}
	case "bits":
		for n := j.Lo; n <= j.Hi; n++ {
			for _, sc := range storeCfgs() {
				if sc.learn && n > 192 {
					continue
				}
				for p := 0; p < 5; p++ {
					for q := p; q < 5; q++ {
						checkBitPair(res, sc, n, bitPattern(p, n, 0), bitPattern(q, n, 1), fmt.Sprintf("patterns %d/%d", p, q))
					}
				}
			}
			if n%64 <= 1 || n%64 == 63 {
				res.Nontriv++
			}
		}
		res.Sample = map[string]any{"kind": "bits", "lengths": []int{j.Lo, j.Hi}, "stores": 4, "pattern_pairs": 15}
	case "bitsall":
		n := j.Lo
		for _, sc := range storeCfgs() {
			for a := 0; a < 1<<uint(n); a++ {
				for b := 0; b < 1<<uint(n); b++ {
					ba, bb := make([]bool, n), make([]bool, n)
					for i := 0; i < n; i++ {
						ba[i] = a&(1<<uint(i)) != 0
						bb[i] = b&(1<<uint(i)) != 0
					}
					checkBitPair(res, sc, n, ba, bb, fmt.Sprintf("bits %0*b/%0*b", n, a, n, b))
				}
			}
		}
		res.Nontriv += int64(1) << uint(2*n)
		_ = bits.Len
	case "haversine":
		hv, _ := distance.GetFloatDistanceFn(models.DistanceHaversine)
		var coords [][2]float32
		for lat := -90; lat <= 90; lat += 5 {
			for lon := -180; lon <= 180; lon += 5 {
				coords = append(coords, [2]float32{float32(lat), float32(lon)})
			}
		}
		for i := j.Lo; i < j.Hi && i < len(coords); i++ {
			a := coords[i]
			for _, b := range coords {
				got := float64(hv(a[:], b[:]))
				// independent formulation: great-circle distance via atan2 of the
				// vector cross/dot products
				la1, lo1, la2, lo2 := float64(a[0])*math.Pi/180, float64(a[1])*math.Pi/180, float64(b[0])*math.Pi/180, float64(b[1])*math.Pi/180
				dlo := lo2 - lo1
				yv := math.Sqrt(math.Pow(math.Cos(la2)*math.Sin(dlo), 2) + math.Pow(math.Cos(la1)*math.Sin(la2)-math.Sin(la1)*math.Cos(la2)*math.Cos(dlo), 2))
				xv := math.Sin(la1)*math.Sin(la2) + math.Cos(la1)*math.Cos(la2)*math.Cos(dlo)
				want := 6371000 * math.Atan2(yv, xv)
				res.Evals++
				if math.IsNaN(got) || math.Abs(got-want) > 2+1e-6*want {
					res.v("haversine-wrong", "haversine(%v,%v) = %g, great-circle definition gives %g", a, b, got, want)
				}
				if back := float64(hv(b[:], a[:])); back != got {
					res.v("haversine-asymmetric", "haversine(%v,%v)=%g but reversed %g", a, b, got, back)
				}
			}
		}
		res.Nontriv += int64(j.Hi - j.Lo)
		res.Sample = map[string]any{"kind": "haversine", "lattice": "37x73 coordinates, all ordered pairs", "rows": []int{j.Lo, j.Hi}}
	}
	return json.Marshal(res)
}

func master(cfg *harness.Config, rep *harness.Report) {
	rep.Rule = "float kernels: every length 1..4096 x operand offsets (quick {0,1,3} independently for both operands; thorough 0..8) x 9 value families (incl. near-equal operands of large norm) x 7 implementations (asm.Dot, asm.SquaredEuclideanDistance, the three dispatched functions, the two pure-Go fallbacks) against a float64 reference with tolerance 4·len·2^-23·Σ|terms of the definition| (for the euclidean distance the terms are (x_i-y_i)^2, not the norms), NaN canaries around both operand slices, bit-exact symmetry, exact zero cases; bit metrics: every length 1..4096 x 4 store configurations (hamming, jaccard, fixed threshold, learned threshold for len<=192) x 15 pattern pairs through the real vector store, and all 2^len x 2^len pairs for len<=6 (thorough <=7); haversine: all ordered pairs of a 37x73 lattice against an independent atan2 formulation. non-trivial = lengths at block/tail or word boundaries, distinct bit pairs, lattice rows"
	rep.Assumptions = []string{"float values outside the eight families are not enumerated", "runs on this CPU (AVX2+FMA present: the asm kernels are the dispatched ones); the pure-Go fallbacks are swept through the verif export hook"}
	var jobs []json.RawMessage
	add := func(j job) {
		b, _ := json.Marshal(j)
		jobs = append(jobs, b)
	}
	if cfg.Replay != "" {
		var j job
		if err := harness.LoadReplay(cfg.Replay, &j); err != nil {
			panic(err)
		}
		add(j)
	} else {
		offs := []int{0, 1, 3}
		if !cfg.Quick() {
			offs = []int{0, 1, 2, 3, 4, 5, 6, 7, 8}
		}
		for lo := 1; lo <= 4096; lo += 32 {
			add(job{Kind: "float", Lo: lo, Hi: min(lo+31, 4096), Offsets: offs})
		}
		for lo := 1; lo <= 4096; lo += 64 {
			add(job{Kind: "bits", Lo: lo, Hi: min(lo+63, 4096)})
		}
		maxAll := 6
		if !cfg.Quick() {
			maxAll = 7
		}
		for n := 1; n <= maxAll; n++ {
			add(job{Kind: "bitsall", Lo: n})
		}
		for r := 0; r < 37*73; r += 100 {
			add(job{Kind: "haversine", Lo: r, Hi: r + 100})
		}
	}
	p := pool.New(pool.Options{CPUsPerWorker: 1, JobTimeout: 20 * 60 * 1e9})
	results, err := p.RunAll(jobs)
	if err != nil {
		panic(err)
	}
	for _, r := range results {
		var j job
		json.Unmarshal(r.Job, &j)
		if r.Crashed || r.Hung || r.Err != "" {
			rep.Violate(harness.Violation{Sig: "distance-crashed-" + j.Kind, Detail: fmt.Sprintf("crashed=%v hung=%v err=%s stderr=%s", r.Crashed, r.Hung, r.Err, tail(r.Stderr)), Replay: j})
			continue
		}
		var res result
		json.Unmarshal(r.Out, &res)
		rep.Evaluations += res.Evals
		rep.DistinctNontrivial += res.Nontriv
		for _, o := range res.Outcomes {
			rep.Outcome(o)
		}
		rep.Outcome(fmt.Sprint(j.Kind, len(res.Viols) == 0))
		for _, v := range res.Viols {
			rep.Violate(harness.Violation{Sig: v.Sig, Detail: v.Detail, Replay: j})
		}
		if res.Sample != nil && r.Index%37 == 0 {
			rep.Sample(res.Sample)
		}
	}
	rep.Set("jobs", len(jobs))
}

func tail(s string) string {
	if len(s) > 1500 {
		return s[len(s)-1500:]
	}
	return s
}

func main() {
	harness.Main("C20", worker, master, "model_checking")
}
