package shardlib

import (
	"encoding/binary"
	"fmt"
	"math"
	"sort"

	"github.com/semafind/semadb/conversion"
	"github.com/semafind/semadb/models"
)

// VectorPool returns per-metric stored vectors (with ties on purpose) and queries.
func VectorPool(metric string) (stored [][]float32, queries [][]float32) {
	switch metric {
	case models.DistanceHamming, models.DistanceJaccard:
		stored = [][]float32{{0, 0, 0, 1}, {1, 0, 0, 1}, {1, 1, 0, 0}, {1, 1, 1, 1}, {0, 0, 0, 0}, {0, 1, 0, 1}, {1, 0, 1, 0}, {0, 1, 1, 1}}
		queries = [][]float32{{0, 0, 0, 0}, {1, 1, 1, 1}, {1, 0, 0, 0}, {0.4, 0.6, 0.5, 0.51}}
	case models.DistanceHaversine:
		stored = [][]float32{{0, 0}, {0, 90}, {51.5, -0.12}, {-33.9, 151.2}, {89, 0}, {0, -90}, {40.7, -74}, {35.7, 139.7}}
		queries = [][]float32{{0, 0}, {48.85, 2.35}, {-90, 0}, {10, 179}}
	case models.DistanceCosine:
		u := func(deg float64) []float32 {
			return []float32{float32(math.Cos(deg * math.Pi / 180)), float32(math.Sin(deg * math.Pi / 180)), 0, 0}
		}
		stored = [][]float32{u(0), u(30), u(90), u(180), u(270), u(45), u(135), u(300)}
		queries = [][]float32{u(10), u(100), u(225), {0, 0, 1, 0}}
	case "euclidean1":
		// huge but legal magnitudes: squared differences overflow float32 to +Inf (one huge component per
		// vector, so no Inf - Inf); a point at an infinite distance is still a stored point
		stored = [][]float32{{0, 0, 0, 0}, {1, 0, 0, 0}, {3e19, 0, 0, 0}, {0, 2, 0, 0}, {-3e19, 1, 0, 0}, {1, 0, 0, 0.5}, {2e19, 0, 0, 0}, {0, 0, 1, 0}}
		queries = [][]float32{{0, 0, 0, 0}, {3e19, 0, 0, 0}, {1, 1, 0, 0}, {-1e19, 0, 0, 0}}
	default: // euclidean, dot: small lattice, exact in float32
		stored = [][]float32{{0, 0, 0, 0}, {1, 0, 0, 0}, {0, 2, 0, 0}, {3, 3, 0, 0}, {-1, 0, 0, 2}, {1, 0, 0, 0.5}, {2, 2, 0, 0}, {0, 0, 1, 0}}
		queries = [][]float32{{0, 0, 0, 0}, {1, 1, 0, 0}, {-2, 0.5, 0, 1}, {3, 3, 0, 0}}
	}
	return
}

// DimOf returns the vector size used for a metric.
func DimOf(metric string) uint {
	if metric == models.DistanceHaversine {
		return 2
	}
	return 4
}

// GraphCheck verifies the persisted Vamana graph of one property against the model.
func (in *Inst) GraphCheck(o *Obs, m *Model, prop string, p models.IndexVectorVamanaParameters) {
	d, err := in.Dump()
	o.Checks++
	if err != nil {
		o.Fail("dump-error", "%v", err)
		return
	}
	b := d["index/vectorVamana/"+prop]
	nodeIds := NodeIds(d)
	want := map[uint64]int{1: -1}
	for id, doc := range m.Docs {
		if _, ok := VecOf(doc, prop); ok {
			n, ok := nodeIds[id]
			if !ok {
				o.Fail("graph-point-without-node-id", "point %d has no node id", id)
				continue
			}
			if prev, dup := want[n]; dup {
				o.Fail("node-id-shared-by-live-points", "points %d and %d share node id %d", prev, id, n)
			}
			want[n] = id
		}
	}
	edges := map[uint64][]uint64{}
	vecs := map[uint64]bool{}
	var maxRecorded uint64
	haveMax := false
	for k, v := range b {
		switch {
		case len(k) == 10 && k[0] == 'n' && k[9] == 'e':
			edges[binary.LittleEndian.Uint64([]byte(k[1:9]))] = conversion.BytesToEdgeList(v)
		case len(k) == 10 && k[0] == 'n' && (k[9] == 'v' || k[9] == 'q'):
			vecs[binary.LittleEndian.Uint64([]byte(k[1:9]))] = true
		case k == "_vamanaMaxNodeId":
			maxRecorded = conversion.BytesToUint64(v)
			haveMax = true
		case k == "_binaryQuantizerThreshold" || k == "_productQuantizerCentroidDists" || k == "_productQuantizerFlatCentroids":
		default:
			o.Fail("graph-bucket-foreign-key", "unexpected key %x in the graph bucket", k)
		}
	}
	if len(b) == 0 && len(want) == 1 {
		// index never touched: nothing persisted yet, nothing to check
		o.Note("graph-empty")
		return
	}
	for n, id := range want {
		if _, ok := edges[n]; !ok {
			o.Fail("graph-node-missing", "no graph node for node id %d (point %d)", n, id)
		}
		if !vecs[n] {
			o.Fail("graph-vector-missing", "no stored vector for node id %d (point %d)", n, id)
		}
	}
	for n := range edges {
		if _, ok := want[n]; !ok {
			o.Fail("graph-node-for-removed-point", "graph node %d exists but no live point with the field has that node id", n)
		}
	}
	for n := range vecs {
		if _, ok := want[n]; !ok {
			o.Fail("graph-vector-for-removed-point", "stored vector %d exists but no live point with the field has that node id", n)
		}
	}
	nEdges := 0
	dupEdges := 0
	for n, es := range edges {
		seen := map[uint64]bool{}
		for _, t := range es {
			nEdges++
			if t == n {
				o.Fail("graph-self-edge", "node %d has an edge to itself", n)
			}
			if _, ok := edges[t]; !ok {
				o.Fail("graph-dangling-edge", "node %d (point %d) has an edge to %d which is not a node", n, want[n], t)
			}
			if seen[t] {
				dupEdges++
			}
			seen[t] = true
		}
		if n != 1 && len(es) > p.DegreeBound {
			o.Fail("graph-degree-bound-exceeded", "node %d has %d edges, degree bound %d", n, len(es), p.DegreeBound)
		}
		if haveMax && n > maxRecorded {
			o.Fail("graph-max-node-id-too-small", "node id %d in use, recorded maximum %d", n, maxRecorded)
		}
	}
	if !haveMax && len(edges) > 0 {
		o.Fail("graph-max-node-id-missing", "graph persisted without _vamanaMaxNodeId")
	}
	o.Checks += int64(len(edges) + nEdges)
	o.Note("nodes", len(edges), "edges", nEdges, "dup", dupEdges)
}

// VamanaQueryCfg bounds the query battery.
type VamanaQueryCfg struct {
	Prop        string
	Params      models.IndexVectorVamanaParameters
	Queries     [][]float32
	Limits      []int
	SearchSizes []int
	Weights     []*float32
	Filters     []NamedFilter
	InsertOnly  bool // the history so far consists of inserts only
}

// NamedFilter is a pre-filter with a display name.
type NamedFilter struct {
	Name string
	Q    *models.Query
}

// VamanaBattery runs the query battery of C03 on one property.
func (in *Inst) VamanaBattery(o *Obs, m *Model, c VamanaQueryCfg) {
	d, err := in.Dump()
	if err != nil {
		o.Fail("dump-error", "%v", err)
		return
	}
	env, err := EnvFor(c.Params.DistanceMetric, c.Params.Quantizer, int(c.Params.VectorSize), d["index/vectorVamana/"+c.Prop], NodeIds(d))
	if err != nil {
		o.Fail("harness-env", "%v", err)
		return
	}
	PQCheck(o, "vamana", env, m, c.Prop)
	VectorKeysCheck(o, "vamana", d["index/vectorVamana/"+c.Prop], NodeIds(d), m, c.Prop, 1) // node 1 = the graph's entry node
	nvec := 0
	for _, doc := range m.Docs {
		if _, ok := VecOf(doc, c.Prop); ok {
			nvec++
		}
	}
	for qi, qv := range c.Queries {
		for _, limit := range c.Limits {
			for _, ss := range c.SearchSizes {
				if ss < limit {
					continue
				}
				for _, w := range c.Weights {
					for _, f := range c.Filters {
						q := models.Query{Property: c.Prop, VectorVamana: &models.SearchVectorVamanaOptions{Vector: qv, Operator: models.OperatorNear, SearchSize: ss, Limit: limit, Weight: w, Filter: f.Q}}
						var fset IdSet
						exact := false
						if f.Q != nil {
							fset, _ = EvalFilter(m, *f.Q)
							exact = len(fset) <= ss
						} else {
							exact = c.InsertOnly && nvec <= min(c.Params.DegreeBound, c.Params.SearchSize-1, ss-1)
						}
						desc := fmt.Sprintf("vamana near q%d%v limit %d searchSize %d weight %v filter %s", qi, qv, limit, ss, wStr(w), f.Name)
						res, err := in.Search(q, nil, 0)
						if err != nil {
							o.Checks++
							o.Fail("vamana-search-error", "%s: %v", desc, err)
							continue
						}
						RankCheck(o, "vamana", env, m, c.Prop, qv, limit, w, fset, res, exact, desc)
					}
				}
			}
		}
	}
}

func wStr(w *float32) string {
	if w == nil {
		return "nil"
	}
	return fmt.Sprint(*w)
}

// Lattice returns n points of a 2-d integer lattice padded to dim, in a fixed order.
func Lattice(n, dim int) [][]float32 {
	var out [][]float32
	side := int(math.Ceil(math.Sqrt(float64(n))))
	for i := 0; i < n; i++ {
		v := make([]float32, dim)
		v[0] = float32(i % side)
		if dim > 1 {
			v[1] = float32(i / side)
		}
		out = append(out, v)
	}
	return out
}

// Clusters returns n points in two tight clusters (to make the degree bound bind).
func Clusters(n, dim int) [][]float32 {
	var out [][]float32
	for i := 0; i < n; i++ {
		v := make([]float32, dim)
		base := float32(0)
		if i%2 == 1 {
			base = 100
		}
		v[0] = base + float32(i)*0.001
		if dim > 1 {
			v[1] = base - float32(i%7)*0.001
		}
		out = append(out, v)
	}
	return out
}

// SortedKeys returns the sorted keys of a string map.
func SortedKeys[V any](m map[string]V) []string {
	var k []string
	for s := range m {
		k = append(k, s)
	}
	sort.Strings(k)
	return k
}
