package shardlib

import (
	"encoding/json"
	"fmt"
	"os"
	"semaverif/engine/faultx"
	"strings"

	"semaverif/engine/seqx"
)

// ShardSystem is the seqx.System of the shard-level harnesses: the real shard
// plus the reference model, with a pluggable observation battery.
type ShardSystem struct {
	In       *Inst
	M        *Model
	Syms     *Symbols
	Obs      Obs
	Battery  func(s *ShardSystem)
	KeyFn    func(s *ShardSystem) string
	terminal bool
	// Applied lists the operations that succeeded so far.
	Applied []Op
	// PostOp, when set, runs after every successful operation (e.g. to run a
	// lock-step twin); it may return violations.
	PostOp func(s *ShardSystem, op Op) []V
}

func hasIndexes(in *Inst) bool { return len(in.Cfg.Schema) > 0 }

// Apply implements seqx.System.
func (s *ShardSystem) Apply(raw json.RawMessage) []seqx.Viol {
	var ref OpRef
	json.Unmarshal(raw, &ref)
	op, ok := s.Syms.Get(ref.Name)
	if !ok {
		return []seqx.Viol{{Sig: "harness-unknown-symbol", Detail: ref.Name}}
	}
	if op.Kind == "queries" {
		// a round of searches in the middle of a history: stored data does not
		// change, what the shared caches hold does (a flat search scans and loads
		// every vector, a graph search loads nodes, filters and text load term sets).
		// What the searches answer here is checked at the state that ends with the
		// previous batch; this step only matters for what follows it.
		if s.Battery != nil {
			keep := s.Obs
			s.Battery(s)
			s.Obs = keep
		}
		s.Applied = append(s.Applied, op)
		return nil
	}
	if strings.HasSuffix(op.Name, "!commit-fails") {
		// The batch runs to the end of its storage transaction function - every index has done
		// its work on the shared caches - and then the transaction fails to commit (disk full,
		// I/O error): storage rolls back, the model does not change, and what the warm caches
		// answer afterwards must not either.  File-backed instances only (memstore cannot roll back).
		if s.In.Proxy == nil {
			return nil
		}
		fmt.Fprintf(os.Stderr, "@@J-APPLY %s expect-reject\n", op.Name)
		s.In.Proxy.Arm(&faultx.Fault{Tx: 1, Kind: faultx.KReturn, Ordinal: 1, Action: "fail"}, s.In.Path+".snap")
		got := s.In.ApplySettled(op)
		fired := s.In.Proxy.Fired()
		s.In.Proxy.Arm(nil, "")
		fmt.Fprintf(os.Stderr, "@@J-FAILED %s\n", op.Name)
		if fired && got.Err == nil {
			return []seqx.Viol{{Sig: "storage-error-swallowed", Detail: op.Name + " met a failing commit but reported success"}}
		}
		if sig, detail := LateViolation(op, got); sig != "" {
			return []seqx.Viol{{Sig: sig, Detail: detail}}
		}
		if s.In.Cfg.ReopenEachOp {
			if err := s.In.Reopen(); err != nil {
				return []seqx.Viol{{Sig: "reopen-failed", Detail: err.Error()}}
			}
		}
		return nil
	}
	exp := s.M.Apply(op)
	tag := ""
	if exp.Reject {
		tag = " expect-reject"
	}
	if exp.Reject && s.In.Cfg.Backend == "mem" {
		// The in-memory backend has no rollback (its Write applies puts directly):
		// the properties scope it to histories of successful batches, so a batch the
		// model rejects is not issued on it at all.
		return nil
	}
	fmt.Fprintf(os.Stderr, "@@J-APPLY %s%s\n", op.Name, tag)
	got := s.In.ApplySettled(op)
	if got.Err != nil {
		fmt.Fprintf(os.Stderr, "@@J-FAILED %s\n", op.Name)
	} else {
		fmt.Fprintf(os.Stderr, "@@J-OK %s\n", op.Name)
	}
	if sig, detail := CompareResult(op, exp, got); sig != "" {
		return []seqx.Viol{{Sig: sig, Detail: detail}}
	}
	if sig, detail := LateViolation(op, got); sig != "" {
		return []seqx.Viol{{Sig: sig, Detail: detail}}
	}
	if got.Err == nil {
		s.Applied = append(s.Applied, op)
	}
	if got.Err != nil && len(op.Ids) > 1 && hasIndexes(s.In) {
		// Known defect class F4: goroutines of a failed multi-point batch may
		// outlive it and leak a cache write lock; what happens on this instance
		// afterwards depends on the real scheduler.  The state is still checked
		// (reads cannot block on the leaked lock) but not expanded.
		s.terminal = true
	}
	if s.In.Cfg.ReopenEachOp && op.Kind != "reopen" {
		if err := s.In.Reopen(); err != nil {
			return []seqx.Viol{{Sig: "reopen-failed", Detail: err.Error()}}
		}
	}
	if s.PostOp != nil {
		var out []seqx.Viol
		for _, v := range s.PostOp(s, op) {
			out = append(out, seqx.Viol{Sig: v.Sig, Detail: v.Detail})
		}
		if len(out) > 0 {
			return out
		}
	}
	return nil
}

// InsertOnly reports whether only insert batches succeeded so far.
func (s *ShardSystem) InsertOnly() bool {
	for _, o := range s.Applied {
		if o.Kind != "ins" && o.Kind != "reopen" && o.Kind != "noop" && len(o.Ids) > 0 {
			return false
		}
	}
	return true
}

// Check implements seqx.System.
func (s *ShardSystem) Check() []seqx.Viol {
	s.Obs = Obs{Checks: s.Obs.Checks}
	s.Battery(s)
	var out []seqx.Viol
	for _, v := range s.Obs.Viols {
		out = append(out, seqx.Viol{Sig: v.Sig, Detail: v.Detail})
	}
	return out
}

// Key implements seqx.System.
func (s *ShardSystem) Key() string {
	if s.KeyFn == nil {
		return ""
	}
	return s.KeyFn(s)
}

// Outcome implements seqx.System.
func (s *ShardSystem) Outcome() string { return s.Obs.Outcome() }

// Checks implements seqx.System.
func (s *ShardSystem) Checks() int64 { return s.Obs.Checks }

// Terminal implements seqx.System.
func (s *ShardSystem) Terminal() bool { return s.terminal }

// Close implements seqx.System.
func (s *ShardSystem) Close() { s.In.Close() }

// PointStoreKey is the de-duplication key for harnesses whose futures depend
// only on the model and the point store / counters.
func PointStoreKey(s *ShardSystem) string {
	d, err := s.In.Dump()
	if err != nil {
		return ""
	}
	return Hash(s.M.Digest(), DumpDigest(map[string]map[string][]byte{"points": StripData(d["points"]), "internal": d["internal"]}))
}

// FullKey additionally covers every index bucket byte for byte.
func FullKey(s *ShardSystem) string {
	d, err := s.In.Dump()
	if err != nil {
		return ""
	}
	d["points"] = StripData(d["points"])
	return Hash(s.M.Digest(), DumpDigest(d))
}

// StripData drops the document blobs (msgpack map order is not canonical; the
// model digest covers the documents).
func StripData(b map[string][]byte) map[string][]byte {
	out := map[string][]byte{}
	for k, v := range b {
		if len(k) == 10 && k[9] == 'd' {
			continue
		}
		out[k] = v
	}
	return out
}
