package shardlib

import (
	"fmt"
	"runtime"
	"sort"
	"strings"
	"time"

	"github.com/google/uuid"
	"github.com/semafind/semadb/models"
	"github.com/semafind/semadb/shard"
	"github.com/vmihailenco/msgpack/v5"
	"semaverif/engine/faultx"
)

// Op is one batch at the shard API.  Ops travel between processes by name
// only (documents contain typed values JSON cannot carry); every harness
// builds the same symbol table in master and worker.
type Op struct {
	Name string
	Kind string // ins | upd | del | reopen | noop
	Ids  []int
	Docs []Doc
}

// OpRef is the JSON form of an operation.
type OpRef struct {
	Name string `json:"name"`
}

// Symbols is a symbol table.
type Symbols struct {
	byName map[string]Op
	Order  []string
}

// NewSymbols builds a table; names must be unique.
func NewSymbols(ops ...Op) *Symbols {
	s := &Symbols{byName: map[string]Op{}}
	for _, o := range ops {
		s.Add(o)
	}
	return s
}

// Add registers an op.
func (s *Symbols) Add(o Op) {
	if _, dup := s.byName[o.Name]; dup {
		panic("duplicate symbol " + o.Name)
	}
	s.byName[o.Name] = o
	s.Order = append(s.Order, o.Name)
}

// Get looks an op up.
func (s *Symbols) Get(name string) (Op, bool) {
	o, ok := s.byName[name]
	return o, ok
}

// Refs returns the alphabet as seqx symbols, in order.
func (s *Symbols) Refs(names ...string) []any {
	if len(names) == 0 {
		names = s.Order
	}
	out := make([]any, len(names))
	for i, n := range names {
		if _, ok := s.byName[n]; !ok {
			panic("unknown symbol " + n)
		}
		out[i] = OpRef{Name: n}
	}
	return out
}

// ---------------------------------------------------------------------------

// Model is the reference point store: a plain map.
type Model struct {
	Docs         map[int]Doc
	Schema       models.IndexSchema
	MaxPointSize int
}

// NewModel creates an empty model.
func NewModel(schema models.IndexSchema, maxPointSize int) *Model {
	return &Model{Docs: map[int]Doc{}, Schema: schema, MaxPointSize: maxPointSize}
}

// Expect is what the model says an operation must return.
type Expect struct {
	Reject bool
	Why    string
	Ids    []int // ids reported as updated / deleted
}

// Lookup resolves a dotted path in a canonical document.
func Lookup(d Doc, path string) (any, bool) {
	var cur any = d
	for _, p := range strings.Split(path, ".") {
		m, ok := cur.(map[string]any)
		if !ok {
			return nil, false
		}
		cur, ok = m[p]
		if !ok {
			return nil, false
		}
	}
	if cur == nil {
		return nil, false
	}
	return cur, true
}

// typeOK reports whether every indexed field of the canonical document has the
// type its index requires (the HTTP layer guarantees this; a batch that
// violates it is rejected by the index pipeline).
func (m *Model) typeOK(d Doc) (bool, string) {
	for prop, sv := range m.Schema {
		v, ok := Lookup(d, prop)
		if !ok {
			continue
		}
		bad := false
		switch sv.Type {
		case models.IndexTypeVectorFlat, models.IndexTypeVectorVamana:
			arr, ok := v.([]any)
			if !ok {
				bad = true
				break
			}
			for _, e := range arr {
				if _, ok := e.(float32); !ok {
					bad = true
				}
			}
		case models.IndexTypeText, models.IndexTypeString:
			_, ok := v.(string)
			bad = !ok
		case models.IndexTypeStringArray:
			arr, ok := v.([]any)
			if !ok {
				bad = true
				break
			}
			for _, e := range arr {
				if _, ok := e.(string); !ok {
					bad = true
				}
			}
		case models.IndexTypeInteger:
			_, ok := v.(int64)
			bad = !ok
		case models.IndexTypeFloat:
			_, ok := v.(float64)
			bad = !ok
		}
		if bad {
			return false, fmt.Sprintf("field %s has type %T, index %s cannot take it", prop, v, sv.Type)
		}
	}
	return true, ""
}

// Apply applies an operation to the model and says what the implementation
// must report.
func (m *Model) Apply(op Op) Expect {
	switch op.Kind {
	case "ins":
		seen := map[int]bool{}
		for _, id := range op.Ids {
			if seen[id] {
				return Expect{Reject: true, Why: "id repeated in batch"}
			}
			seen[id] = true
		}
		for _, id := range op.Ids {
			if _, ok := m.Docs[id]; ok {
				return Expect{Reject: true, Why: "id already stored"}
			}
		}
		docs := make([]Doc, len(op.Ids))
		for i := range op.Ids {
			docs[i] = Canon(op.Docs[i])
			if ok, why := m.typeOK(docs[i]); !ok {
				return Expect{Reject: true, Why: why}
			}
		}
		for i, id := range op.Ids {
			m.Docs[id] = docs[i]
		}
		return Expect{}
	case "upd":
		// work on a copy: the batch is all-or-nothing
		next := map[int]Doc{}
		var updated []int
		for i, id := range op.Ids {
			cur, ok := next[id]
			if !ok {
				cur, ok = m.Docs[id]
			}
			if !ok {
				continue // unknown ids are skipped silently
			}
			merged := Doc{}
			for k, v := range cur {
				merged[k] = v
			}
			for k, v := range Canon(op.Docs[i]) {
				if s, isStr := v.(string); isStr && s == shard.DELETEVALUE {
					delete(merged, k)
				} else {
					merged[k] = v
				}
			}
			b, err := msgpack.Marshal(merged)
			if err != nil {
				panic(err)
			}
			if len(b) > m.MaxPointSize {
				return Expect{Reject: true, Why: "merged document exceeds MaxPointSize"}
			}
			if ok, why := m.typeOK(merged); !ok {
				return Expect{Reject: true, Why: why}
			}
			next[id] = merged
			updated = append(updated, id)
		}
		for id, d := range next {
			m.Docs[id] = d
		}
		sort.Ints(updated)
		return Expect{Ids: updated}
	case "del":
		var deleted []int
		seen := map[int]bool{}
		for _, id := range op.Ids {
			if seen[id] {
				continue
			}
			seen[id] = true
			if _, ok := m.Docs[id]; ok {
				delete(m.Docs, id)
				deleted = append(deleted, id)
			}
		}
		sort.Ints(deleted)
		return Expect{Ids: deleted}
	case "reopen", "noop":
		return Expect{}
	}
	panic("unknown op kind " + op.Kind)
}

// Digest is a canonical digest of the model state.
func (m *Model) Digest() string {
	var ids []int
	for id := range m.Docs {
		ids = append(ids, id)
	}
	sort.Ints(ids)
	var parts []any
	for _, id := range ids {
		parts = append(parts, id, DocString(m.Docs[id]))
	}
	return hashParts(parts...)
}

// SortedIds returns the live ids in ascending order.
func (m *Model) SortedIds() []int {
	var ids []int
	for id := range m.Docs {
		ids = append(ids, id)
	}
	sort.Ints(ids)
	return ids
}

// ---------------------------------------------------------------------------

// Result is what the implementation reported for an operation.
type Result struct {
	Err  error
	Ids  []int
	Late []faultx.LateUse // storage operations that arrived after their transaction ended
}

// Settle waits until the goroutines a batch started have finished (bounded),
// so that a failed batch cannot bleed into the next operation, and collects
// the late storage uses the proxy refused.
func (in *Inst) Settle(baseline int) []faultx.LateUse {
	deadline := time.Now().Add(3 * time.Second)
	for runtime.NumGoroutine() > baseline && time.Now().Before(deadline) {
		time.Sleep(200 * time.Microsecond)
	}
	if in.Proxy == nil {
		return nil
	}
	return in.Proxy.TakeLate()
}

// ApplySettled runs the operation and then settles.
func (in *Inst) ApplySettled(op Op) Result {
	base := runtime.NumGoroutine()
	r := in.ApplyImpl(op)
	if r.Err != nil || in.Proxy != nil {
		r.Late = in.Settle(base)
	}
	return r
}

// ApplyImpl runs the operation on the real shard.
func (in *Inst) ApplyImpl(op Op) Result {
	switch op.Kind {
	case "ins":
		pts := make([]models.Point, len(op.Ids))
		for i, id := range op.Ids {
			pts[i] = models.Point{Id: UUID(id), Data: Encode(op.Docs[i])}
		}
		return Result{Err: in.Shard.InsertPoints(pts)}
	case "upd":
		pts := make([]models.Point, len(op.Ids))
		for i, id := range op.Ids {
			pts[i] = models.Point{Id: UUID(id), Data: Encode(op.Docs[i])}
		}
		ids, err := in.Shard.UpdatePoints(pts)
		return Result{Err: err, Ids: toIdx(ids)}
	case "del":
		set := map[uuid.UUID]struct{}{}
		for _, id := range op.Ids {
			set[UUID(id)] = struct{}{}
		}
		ids, err := in.Shard.DeletePoints(set)
		return Result{Err: err, Ids: toIdx(ids)}
	case "reopen":
		return Result{Err: in.Reopen()}
	case "noop":
		return Result{}
	}
	panic("unknown op kind " + op.Kind)
}

func toIdx(ids []uuid.UUID) []int {
	out := make([]int, len(ids))
	for i, u := range ids {
		out[i] = UUIDIndex(u)
	}
	sort.Ints(out)
	return out
}

// CompareResult compares the implementation's answer with the model's.
func CompareResult(op Op, exp Expect, got Result) (sig, detail string) {
	if exp.Reject && got.Err == nil {
		return "accepted-batch-that-must-be-rejected:" + op.Kind, fmt.Sprintf("%s: model rejects (%s) but the shard reported success", op.Name, exp.Why)
	}
	if !exp.Reject && got.Err != nil {
		msg := got.Err.Error()
		if i := strings.LastIndex(msg, ": "); i >= 0 {
			msg = msg[i+2:]
		}
		return "rejected-valid-batch:" + op.Kind + ":" + msg, fmt.Sprintf("%s: shard returned error %v", op.Name, got.Err)
	}
	if exp.Reject {
		return "", ""
	}
	if op.Kind == "upd" || op.Kind == "del" {
		if fmt.Sprint(exp.Ids) != fmt.Sprint(got.Ids) && !(len(exp.Ids) == 0 && len(got.Ids) == 0) {
			return "wrong-reported-ids:" + op.Kind, fmt.Sprintf("%s: shard reported ids %v, requested ids that existed are %v", op.Name, got.Ids, exp.Ids)
		}
	}
	return "", ""
}

// LateViolation turns late storage uses into a violation. The signature names
// whether the batch had failed (the known defect class) or succeeded.
func LateViolation(op Op, r Result) (sig, detail string) {
	if len(r.Late) == 0 {
		return "", ""
	}
	class := "successful"
	if r.Err != nil {
		class = "failed"
	}
	u := r.Late[0]
	return "late-storage-use-after-" + class + "-batch:" + faultx.LateSignature(r.Late),
		fmt.Sprintf("%s returned (err=%v) while goroutines of the batch were still running; afterwards they issued %d storage operation(s) on the ended transaction, first: %s on bucket %q from %s (without the proxy this is a nil dereference inside bbolt)", op.Name, r.Err, len(r.Late), u.Kind, u.Bucket, u.Site)
}
