package shardlib

import (
	"encoding/binary"
	"fmt"
	"sort"

	"github.com/google/uuid"
	"github.com/semafind/semadb/conversion"
	"github.com/semafind/semadb/models"
)

// V is a violation found by a battery.
type V struct {
	Sig    string
	Detail string
}

// Obs accumulates violations, comparison counts and an outcome digest.
type Obs struct {
	Viols   []V
	Checks  int64
	outcome []any
}

// Fail records a violation.
func (o *Obs) Fail(sig, format string, a ...any) {
	if len(o.Viols) < 10 {
		o.Viols = append(o.Viols, V{sig, fmt.Sprintf(format, a...)})
	}
}

// Note adds to the outcome digest.
func (o *Obs) Note(parts ...any) { o.outcome = append(o.outcome, parts...) }

// Outcome returns the digest of everything noted.
func (o *Obs) Outcome() string { return hashParts(o.outcome...) }

// IdQuery builds an _id query for the given point indices.
func IdQuery(ids ...int) models.Query {
	if len(ids) == 1 {
		return models.Query{Property: "_id", String: &models.SearchStringOptions{Value: UUID(ids[0]).String(), Operator: models.OperatorEquals}}
	}
	vals := make([]string, len(ids))
	for i, id := range ids {
		vals[i] = UUID(id).String()
	}
	return models.Query{Property: "_id", StringArray: &models.SearchStringArrayOptions{Value: vals, Operator: models.OperatorContainsAny}}
}

// Search runs a search on the shard.
func (in *Inst) Search(q models.Query, sel []string, limit int) ([]models.SearchResult, error) {
	return in.Shard.SearchPoints(models.SearchRequest{Query: q, Select: sel, Limit: limit})
}

// ResultDoc extracts the document of a search result.
func ResultDoc(r models.SearchResult) (Doc, error) {
	if r.DecodedData != nil {
		return Doc(r.DecodedData), nil
	}
	return Decode(r.Point.Data)
}

// PointsBattery checks count, reads by id, select-all and the raw point store
// against the model. universe = all ids any operation may mention.
func (in *Inst) PointsBattery(o *Obs, m *Model, universe []int) {
	// 1. reported point count
	info, err := in.Shard.Info()
	o.Checks++
	if err != nil {
		o.Fail("info-error", "Info(): %v", err)
		return
	}
	if int(info.PointCount) != len(m.Docs) {
		o.Fail("point-count-wrong", "reported point count %d, model has %d points %v", info.PointCount, len(m.Docs), m.SortedIds())
	}
	o.Note("count", info.PointCount)
	// 2. read every id of the universe individually
	for _, id := range universe {
		res, err := in.Search(IdQuery(id), []string{"*"}, 10)
		o.Checks++
		if err != nil {
			o.Fail("read-by-id-error", "read of point %d failed: %v", id, err)
			continue
		}
		want, live := m.Docs[id]
		switch {
		case !live && len(res) != 0:
			o.Fail("read-returns-unstored-point", "read of point %d returned %d result(s) but the model does not store it", id, len(res))
		case live && len(res) != 1:
			o.Fail("read-misses-stored-point", "read of stored point %d returned %d result(s)", id, len(res))
		case live:
			got, err := ResultDoc(res[0])
			if err != nil || res[0].Id != UUID(id) || !DocEqual(got, want) {
				o.Fail("read-returns-wrong-document", "point %d: got id %s doc %s (err %v), model has %s", id, res[0].Id, DocString(got), err, DocString(want))
			}
		}
		o.Note(id, live)
	}
	// 3. select-all
	if len(universe) > 0 {
		res, err := in.Search(IdQuery(universe...), []string{"*"}, 100)
		o.Checks++
		if err != nil {
			o.Fail("select-all-error", "%v", err)
		} else {
			got := map[int]Doc{}
			for _, r := range res {
				d, derr := ResultDoc(r)
				idx := UUIDIndex(r.Id)
				if _, dup := got[idx]; dup {
					o.Fail("select-all-duplicate", "point %d returned twice", idx)
				}
				if derr != nil {
					o.Fail("select-all-undecodable", "point %d: %v", idx, derr)
				}
				got[idx] = d
			}
			// the model may hold points outside the universe (bulk batches): the query asked for the universe only
			wantDocs := map[int]Doc{}
			for _, id := range universe {
				if d, ok := m.Docs[id]; ok {
					wantDocs[id] = d
				}
			}
			if len(got) != len(wantDocs) {
				o.Fail("select-all-wrong-set", "select-all returned points %v, model has %v", keysOf(got), keysOf(wantDocs))
			} else {
				for id, want := range wantDocs {
					if g, ok := got[id]; !ok || !DocEqual(g, want) {
						o.Fail("select-all-wrong-document", "point %d: got %s, model has %s", id, DocString(g), DocString(want))
					}
				}
			}
		}
	}
	// 4. raw point store
	in.RawPointStore(o, m)
}

func keysOf(m map[int]Doc) []int {
	var k []int
	for id := range m {
		k = append(k, id)
	}
	sort.Ints(k)
	return k
}

// NodeIds returns uuid index -> node id from a dump.
func NodeIds(d map[string]map[string][]byte) map[int]uint64 {
	out := map[int]uint64{}
	for k, v := range d["points"] {
		if len(k) == 18 && k[0] == 'p' && k[17] == 'i' {
			var u uuid.UUID
			copy(u[:], k[1:17])
			out[UUIDIndex(u)] = conversion.BytesToUint64(v)
		}
	}
	return out
}

// RawPointStore checks the points and internal buckets: uuid <-> node id is a
// bijection over exactly the model's points, data matches, counters agree, the
// free list is disjoint from live ids.
func (in *Inst) RawPointStore(o *Obs, m *Model) {
	d, err := in.Dump()
	o.Checks++
	if err != nil {
		o.Fail("dump-error", "%v", err)
		return
	}
	pts := d["points"]
	byUUID := map[int]uint64{}
	byNode := map[uint64]int{}
	dataByNode := map[uint64][]byte{}
	for k, v := range pts {
		switch {
		case len(k) == 18 && k[0] == 'p' && k[17] == 'i':
			var u uuid.UUID
			copy(u[:], k[1:17])
			byUUID[UUIDIndex(u)] = conversion.BytesToUint64(v)
		case len(k) == 10 && k[0] == 'n' && k[9] == 'i':
			var u uuid.UUID
			copy(u[:], v)
			byNode[binary.LittleEndian.Uint64([]byte(k[1:9]))] = UUIDIndex(u)
		case len(k) == 10 && k[0] == 'n' && k[9] == 'd':
			dataByNode[binary.LittleEndian.Uint64([]byte(k[1:9]))] = v
		default:
			o.Fail("points-bucket-foreign-key", "unexpected key %x in points bucket", k)
		}
	}
	if len(byUUID) != len(m.Docs) || len(byNode) != len(m.Docs) {
		o.Fail("point-store-not-bijective", "points bucket has %d uuid->node and %d node->uuid entries, model has %d points", len(byUUID), len(byNode), len(m.Docs))
	}
	for id, want := range m.Docs {
		n, ok := byUUID[id]
		if !ok {
			o.Fail("point-store-missing-point", "point %d has no uuid->node entry", id)
			continue
		}
		if back, ok := byNode[n]; !ok || back != id {
			o.Fail("point-store-not-bijective", "point %d -> node %d -> point %d (present %v)", id, n, back, ok)
		}
		got, err := Decode(dataByNode[n])
		if err != nil || !DocEqual(got, want) {
			o.Fail("point-store-wrong-data", "point %d node %d stores %s, model has %s", id, n, DocString(got), DocString(want))
		}
		if n < 2 {
			o.Fail("reserved-node-id-assigned", "point %d got node id %d", id, n)
		}
	}
	for n := range dataByNode {
		if _, ok := byNode[n]; !ok {
			o.Fail("point-store-orphan-data", "node %d has data but no uuid", n)
		}
	}
	internal := d["internal"]
	var count uint64
	if b, ok := internal["pointCount"]; ok {
		count = conversion.BytesToUint64(b)
	}
	if int(count) != len(m.Docs) {
		o.Fail("point-count-wrong", "stored pointCount %d, model has %d", count, len(m.Docs))
	}
	next := uint64(2)
	if b, ok := internal["nextFreeNodeId"]; ok {
		next = conversion.BytesToUint64(b)
	}
	free := conversion.BytesToEdgeList(internal["freeNodeIds"])
	freeSet := map[uint64]bool{}
	for _, f := range free {
		if freeSet[f] {
			o.Fail("free-list-duplicate", "node id %d twice on the free list %v", f, free)
		}
		freeSet[f] = true
		if f >= next {
			o.Fail("free-id-beyond-next", "free id %d >= nextFreeNodeId %d", f, next)
		}
	}
	for id, n := range byUUID {
		if freeSet[n] {
			o.Fail("live-node-id-on-free-list", "point %d uses node id %d which is on the free list %v", id, n, free)
		}
		if n >= next {
			o.Fail("live-node-id-beyond-next", "point %d uses node id %d >= nextFreeNodeId %d", id, n, next)
		}
	}
	o.Checks += int64(len(m.Docs) + len(free))
	o.Note("free", len(free), "next", next)
}

// Observe returns a canonical rendering of everything a client can see plus
// (optionally) the raw bucket contents: used for differential before/after
// comparisons where no expected value is needed.
func (in *Inst) Observe(universe []int, queries []models.Query, raw bool) (string, error) {
	var parts []any
	info, err := in.Shard.Info()
	if err != nil {
		return "", fmt.Errorf("info: %w", err)
	}
	parts = append(parts, "count", info.PointCount)
	if len(universe) > 0 {
		res, err := in.Search(IdQuery(universe...), []string{"*"}, 100)
		if err != nil {
			return "", fmt.Errorf("select-all: %w", err)
		}
		type pd struct {
			id  int
			doc string
		}
		var docs []pd
		for _, r := range res {
			d, derr := ResultDoc(r)
			if derr != nil {
				return "", derr
			}
			docs = append(docs, pd{UUIDIndex(r.Id), DocString(Canon(d))})
		}
		sort.Slice(docs, func(i, j int) bool { return docs[i].id < docs[j].id })
		for _, d := range docs {
			parts = append(parts, d.id, d.doc)
		}
	}
	for _, q := range queries {
		res, err := in.Search(cloneQuery(q), nil, 0)
		if err != nil {
			parts = append(parts, QueryString(q), "ERR:"+err.Error())
			continue
		}
		var items []string
		for _, r := range res {
			s := fmt.Sprint(UUIDIndex(r.Id))
			if r.Distance != nil {
				s += fmt.Sprintf("/d%.5g", *r.Distance)
			}
			if r.Score != nil {
				s += fmt.Sprintf("/s%.5g", *r.Score)
			}
			items = append(items, s)
		}
		// ranked answers keep their order, filter answers are sets
		if len(res) > 0 && res[0].Distance == nil && res[0].Score == nil {
			sort.Strings(items)
		}
		parts = append(parts, QueryString(q), fmt.Sprint(items))
	}
	if raw {
		d, err := in.Dump()
		if err != nil {
			return "", err
		}
		parts = append(parts, "raw", DumpDigest(d))
	}
	return fmt.Sprint(parts...), nil
}

// OpenImage opens an existing database file (e.g. a crash image) as a fresh
// cold instance with the same configuration.
func OpenImage(cfg InstCfg, path string) (*Inst, error) {
	in := &Inst{Cfg: cfg}
	if in.Cfg.MaxPointSize == 0 {
		in.Cfg.MaxPointSize = 1 << 20
	}
	in.Cfg.Proxy = false
	in.Col = models.Collection{UserId: "u", Id: "col", IndexSchema: cfg.Schema, UserPlan: models.UserPlan{Name: "p", MaxPointSize: in.Cfg.MaxPointSize, MaxCollectionPointCount: 1 << 30, MaxCollections: 10}}
	in.Path = path
	if err := in.open(); err != nil {
		return nil, err
	}
	return in, nil
}

// UUIDs converts point indices to uuids.
func UUIDs(ids ...int) []uuid.UUID {
	out := make([]uuid.UUID, len(ids))
	for i, id := range ids {
		out[i] = UUID(id)
	}
	return out
}
