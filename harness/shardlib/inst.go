// Package shardlib is shared by the shard-level harnesses (C01–C10): the
// instance wrapper around the real shard, the operation type, the reference
// point-store model and the observation helpers.
package shardlib

import (
	"encoding/json"
	"fmt"
	"os"
	"path/filepath"
	"reflect"
	"sort"

	"github.com/google/uuid"
	"github.com/semafind/semadb/conversion"
	"github.com/semafind/semadb/diskstore"
	"github.com/semafind/semadb/models"
	"github.com/semafind/semadb/shard"
	"github.com/semafind/semadb/shard/cache"
	"github.com/vmihailenco/msgpack/v5"
	"semaverif/engine/faultx"
)

// Doc is a point document.
type Doc = map[string]any

// UUID returns the i-th fixed point id (ascending in byte order).
func UUID(i int) uuid.UUID {
	var u uuid.UUID
	u[0] = 0x10
	u[6] = 0x40
	u[8] = 0x80
	u[14] = byte(i >> 8)
	u[15] = byte(i)
	return u
}

// UUIDIndex is the inverse of UUID (-1 for foreign ids).
func UUIDIndex(u uuid.UUID) int {
	i := int(u[14])<<8 | int(u[15])
	if UUID(i) == u {
		return i
	}
	return -1
}

// InstCfg configures one shard instance.
type InstCfg struct {
	Backend      string             `json:"backend"` // mem | bbolt
	CacheSize    int64              `json:"cache"`   // -1 unlimited, 0 disabled, n bytes
	ReopenEachOp bool               `json:"reopen"`  // close + reopen with a fresh cache manager after every write
	Schema       models.IndexSchema `json:"schema"`
	MaxPointSize int                `json:"maxPointSize"`
	SeedStart    bool               `json:"seedStart"`        // pre-write a fixed Vamana entry vector (owns the one RNG of the index)
	Proxy        bool               `json:"proxy"`            // install the storage proxy (late-use detection, faults, crash images)
}

// Inst is a live shard.
type Inst struct {
	Cfg   InstCfg
	Shard *shard.Shard
	Mgr   *cache.Manager
	Dir   string
	Path  string
	Col   models.Collection
	Proxy *faultx.Proxy
}

// Scratch returns the scratch directory of this run.
func Scratch() string {
	if d := os.Getenv("VERIF_SCRATCH"); d != "" {
		return d
	}
	return "/dev/shm"
}

// NewInst opens a fresh shard.
func NewInst(cfg InstCfg) (*Inst, error) {
	in := &Inst{Cfg: cfg}
	if cfg.MaxPointSize == 0 {
		cfg.MaxPointSize = 1 << 20
		in.Cfg.MaxPointSize = cfg.MaxPointSize
	}
	in.Col = models.Collection{UserId: "u", Id: "col", IndexSchema: cfg.Schema, UserPlan: models.UserPlan{Name: "p", MaxPointSize: cfg.MaxPointSize, MaxCollectionPointCount: 1 << 30, MaxCollections: 10}}
	if cfg.Backend == "bbolt" {
		d, err := os.MkdirTemp(Scratch(), "shard")
		if err != nil {
			return nil, err
		}
		in.Dir = d
		in.Path = filepath.Join(d, "sharddb.bbolt")
	}
	if err := in.open(); err != nil {
		return nil, err
	}
	if cfg.SeedStart {
		if err := in.seedStartNodes(); err != nil {
			return nil, err
		}
	}
	return in, nil
}

func (in *Inst) open() error {
	in.Mgr = cache.NewManager(in.Cfg.CacheSize)
	s, err := shard.NewShard(in.Path, in.Col, in.Mgr)
	if err != nil {
		return err
	}
	in.Shard = s
	if in.Cfg.Proxy {
		s.VerifWrapStore(func(d diskstore.DiskStore) diskstore.DiskStore {
			in.Proxy = faultx.Wrap(d)
			in.Proxy.Poison = os.Getenv("VERIF_POISON") != "0" // on by default: what the store hands out dies with its transaction
			return in.Proxy
		})
	}
	return nil
}

// Reopen closes the shard and opens it again with a fresh cache manager.
func (in *Inst) Reopen() error {
	if in.Path == "" {
		return fmt.Errorf("memstore cannot be reopened")
	}
	if err := in.Shard.Close(); err != nil {
		return err
	}
	return in.open()
}

// Close releases the instance and its files.
func (in *Inst) Close() {
	if in.Shard != nil {
		in.Shard.Close()
	}
	if in.Dir != "" {
		os.RemoveAll(in.Dir)
	}
}

// StartVector is the fixed entry vector used when SeedStart is set (unit length).
func StartVector(dim int) []float32 {
	v := make([]float32, dim)
	v[0] = 0.6
	if dim > 1 {
		v[1] = -0.8
	} else {
		v[0] = 1
	}
	return v
}

func (in *Inst) seedStartNodes() error {
	return in.Shard.VerifStore().Write(func(bm diskstore.BucketManager) error {
		for prop, sv := range in.Cfg.Schema {
			if sv.Type != models.IndexTypeVectorVamana {
				continue
			}
			b, err := bm.Get("index/" + sv.Type + "/" + prop)
			if err != nil {
				return err
			}
			if err := b.Put(conversion.NodeKey(1, 'v'), conversion.Float32ToBytes(StartVector(int(sv.VectorVamana.VectorSize)))); err != nil {
				return err
			}
			if err := b.Put(conversion.NodeKey(1, 'e'), []byte{}); err != nil {
				return err
			}
		}
		return nil
	})
}

// BucketNames lists every bucket the shard can have for its schema.
func (in *Inst) BucketNames() []string {
	names := []string{"points", "internal"}
	for prop, sv := range in.Cfg.Schema {
		names = append(names, "index/"+sv.Type+"/"+prop)
	}
	sort.Strings(names)
	return names
}

// Dump returns the raw content of every bucket.
func (in *Inst) Dump() (map[string]map[string][]byte, error) {
	out := map[string]map[string][]byte{}
	err := in.Shard.VerifStore().Read(func(bm diskstore.BucketManager) error {
		for _, n := range in.BucketNames() {
			b, err := bm.Get(n)
			if err != nil {
				return err
			}
			m := map[string][]byte{}
			if err := b.ForEach(func(k, v []byte) error {
				m[string(k)] = append([]byte{}, v...)
				return nil
			}); err != nil {
				return err
			}
			out[n] = m
		}
		return nil
	})
	return out, err
}

// DumpDigest is a canonical digest of a dump.
func DumpDigest(d map[string]map[string][]byte) string {
	var names []string
	for n := range d {
		names = append(names, n)
	}
	sort.Strings(names)
	var parts []any
	for _, n := range names {
		var keys []string
		for k := range d[n] {
			keys = append(keys, k)
		}
		sort.Strings(keys)
		parts = append(parts, n)
		for _, k := range keys {
			parts = append(parts, k, string(d[n][k]))
		}
	}
	return hashParts(parts...)
}

// ---------------------------------------------------------------------------

// Canon puts a document through msgpack, the way the store sees it.
func Canon(d Doc) Doc {
	if d == nil {
		return Doc{}
	}
	b, err := msgpack.Marshal(d)
	if err != nil {
		panic(err)
	}
	var out Doc
	if err := msgpack.Unmarshal(b, &out); err != nil {
		panic(err)
	}
	if out == nil {
		out = Doc{}
	}
	return out
}

// NoData stands for a point that carries no data at all (zero-length Data: the
// point store supports it, the HTTP layer never produces it).  Use it only in
// batches the model rejects: the reference model has no notion of such a point.
var NoData = Doc{"\x00no-data": true}

// Encode marshals a document as the HTTP layer does.
func Encode(d Doc) []byte {
	if _, nd := d["\x00no-data"]; nd {
		return nil
	}
	b, err := msgpack.Marshal(d)
	if err != nil {
		panic(err)
	}
	return b
}

// Decode unmarshals stored point data.
func Decode(b []byte) (Doc, error) {
	if len(b) == 0 {
		return Doc{}, nil
	}
	var out Doc
	err := msgpack.Unmarshal(b, &out)
	if out == nil {
		out = Doc{}
	}
	return out, err
}

// DocEqual compares two canonical documents.
func DocEqual(a, b Doc) bool {
	if len(a) == 0 && len(b) == 0 {
		return true
	}
	return reflect.DeepEqual(a, b)
}

// DocString renders a document deterministically.
func DocString(d Doc) string {
	b, err := json.Marshal(jsonable(d))
	if err != nil {
		return fmt.Sprintf("%v", d)
	}
	return string(b)
}

func jsonable(v any) any {
	switch x := v.(type) {
	case map[string]any:
		m := map[string]any{}
		for k, e := range x {
			m[k] = jsonable(e)
		}
		return m
	case []any:
		a := make([]any, len(x))
		for i, e := range x {
			a[i] = jsonable(e)
		}
		return a
	case float32:
		return fmt.Sprintf("f32:%v", x)
	case float64:
		return fmt.Sprintf("f64:%v", x)
	case []float32:
		a := make([]any, len(x))
		for i, e := range x {
			a[i] = fmt.Sprintf("f32:%v", e)
		}
		return a
	case []byte:
		return fmt.Sprintf("bytes:%x", x)
	default:
		return x
	}
}
