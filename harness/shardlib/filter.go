package shardlib

import (
	"fmt"
	"sort"
	"strings"

	"github.com/google/uuid"
	"github.com/semafind/semadb/models"
)

// IdSet is a set of point indices.
type IdSet map[int]bool

// Sorted returns the members in ascending order.
func (s IdSet) Sorted() []int {
	var out []int
	for id := range s {
		out = append(out, id)
	}
	sort.Ints(out)
	return out
}

func (s IdSet) String() string { return fmt.Sprint(s.Sorted()) }

// Equal compares two sets.
func (s IdSet) Equal(o IdSet) bool {
	if len(s) != len(o) {
		return false
	}
	for id := range s {
		if !o[id] {
			return false
		}
	}
	return true
}

func cmpOp[T int64 | float64 | string](op string, v, q, end T) (bool, error) {
	switch op {
	case models.OperatorEquals:
		return v == q, nil
	case models.OperatorNotEquals:
		return v != q, nil
	case models.OperatorGreaterThan:
		return v > q, nil
	case models.OperatorGreaterOrEq:
		return v >= q, nil
	case models.OperatorLessThan:
		return v < q, nil
	case models.OperatorLessOrEq:
		return v <= q, nil
	case models.OperatorInRange:
		return v >= q && v <= end, nil
	}
	return false, fmt.Errorf("operator %s not defined for this index type", op)
}

// EvalFilter evaluates a filter query (string, stringArray, integer, float,
// _id, _and, _or) directly on the model's documents: the reference for C02.
// ranking leaves are rejected here (see EvalRanked).
func EvalFilter(m *Model, q models.Query) (IdSet, error) {
	switch q.Property {
	case "_and", "_or":
		subs := q.And
		if q.Property == "_or" {
			subs = q.Or
		}
		var acc IdSet
		for i, sq := range subs {
			s, err := EvalFilter(m, sq)
			if err != nil {
				return nil, err
			}
			if i == 0 {
				acc = s
				continue
			}
			next := IdSet{}
			if q.Property == "_and" {
				for id := range acc {
					if s[id] {
						next[id] = true
					}
				}
			} else {
				for id := range acc {
					next[id] = true
				}
				for id := range s {
					next[id] = true
				}
			}
			acc = next
		}
		if acc == nil {
			acc = IdSet{}
		}
		return acc, nil
	case "_id":
		out := IdSet{}
		var vals []string
		if q.String != nil {
			vals = []string{q.String.Value}
		} else if q.StringArray != nil {
			vals = q.StringArray.Value
		}
		for _, v := range vals {
			u, err := uuid.Parse(v)
			if err != nil {
				return nil, err
			}
			if idx := UUIDIndex(u); idx >= 0 {
				if _, ok := m.Docs[idx]; ok {
					out[idx] = true
				}
			}
		}
		return out, nil
	}
	sv, ok := m.Schema[q.Property]
	if !ok {
		return nil, fmt.Errorf("property %s not indexed", q.Property)
	}
	out := IdSet{}
	for id, d := range m.Docs {
		v, has := Lookup(d, q.Property)
		if !has {
			continue // points that lack the field never match
		}
		match := false
		var err error
		switch sv.Type {
		case models.IndexTypeString:
			s := v.(string)
			qv, end := q.String.Value, q.String.EndValue
			if !sv.String.CaseSensitive {
				s, qv, end = strings.ToLower(s), strings.ToLower(qv), strings.ToLower(end)
			}
			if q.String.Operator == models.OperatorStartsWith {
				match = strings.HasPrefix(s, qv)
			} else {
				match, err = cmpOp(q.String.Operator, s, qv, end)
			}
		case models.IndexTypeInteger:
			match, err = cmpOp(q.Integer.Operator, v.(int64), q.Integer.Value, q.Integer.EndValue)
		case models.IndexTypeFloat:
			match, err = cmpOp(q.Float.Operator, v.(float64), q.Float.Value, q.Float.EndValue)
		case models.IndexTypeStringArray:
			have := map[string]bool{}
			for _, e := range v.([]any) {
				s := e.(string)
				if !sv.StringArray.CaseSensitive {
					s = strings.ToLower(s)
				}
				have[s] = true
			}
			n := 0
			for _, qe := range q.StringArray.Value {
				if !sv.StringArray.CaseSensitive {
					qe = strings.ToLower(qe)
				}
				if have[qe] {
					n++
				}
			}
			switch q.StringArray.Operator {
			case models.OperatorContainsAll:
				match = n == len(q.StringArray.Value)
			case models.OperatorContainsAny:
				match = n > 0
			default:
				err = fmt.Errorf("operator %s not defined for stringArray", q.StringArray.Operator)
			}
		default:
			err = fmt.Errorf("EvalFilter: %s is a ranking index", sv.Type)
		}
		if err != nil {
			return nil, err
		}
		if match {
			out[id] = true
		}
	}
	return out, nil
}

// QueryString renders a query compactly.
func QueryString(q models.Query) string {
	switch {
	case q.Property == "_and" || q.Property == "_or":
		subs := q.And
		if q.Property == "_or" {
			subs = q.Or
		}
		parts := make([]string, len(subs))
		for i, s := range subs {
			parts[i] = QueryString(s)
		}
		return q.Property + "(" + strings.Join(parts, ", ") + ")"
	case q.String != nil:
		if q.String.Operator == models.OperatorInRange {
			return fmt.Sprintf("%s %s [%q,%q]", q.Property, q.String.Operator, q.String.Value, q.String.EndValue)
		}
		return fmt.Sprintf("%s %s %q", q.Property, q.String.Operator, q.String.Value)
	case q.Integer != nil:
		if q.Integer.Operator == models.OperatorInRange {
			return fmt.Sprintf("%s %s [%d,%d]", q.Property, q.Integer.Operator, q.Integer.Value, q.Integer.EndValue)
		}
		return fmt.Sprintf("%s %s %d", q.Property, q.Integer.Operator, q.Integer.Value)
	case q.Float != nil:
		if q.Float.Operator == models.OperatorInRange {
			return fmt.Sprintf("%s %s [%v,%v]", q.Property, q.Float.Operator, q.Float.Value, q.Float.EndValue)
		}
		return fmt.Sprintf("%s %s %v", q.Property, q.Float.Operator, q.Float.Value)
	case q.StringArray != nil:
		return fmt.Sprintf("%s %s %q", q.Property, q.StringArray.Operator, q.StringArray.Value)
	case q.VectorVamana != nil:
		return fmt.Sprintf("%s vamana-near %v limit %d searchSize %d filter %v", q.Property, q.VectorVamana.Vector, q.VectorVamana.Limit, q.VectorVamana.SearchSize, fq(q.VectorVamana.Filter))
	case q.VectorFlat != nil:
		return fmt.Sprintf("%s flat-near %v limit %d filter %v", q.Property, q.VectorFlat.Vector, q.VectorFlat.Limit, fq(q.VectorFlat.Filter))
	case q.Text != nil:
		return fmt.Sprintf("%s text-%s %q limit %d filter %v", q.Property, q.Text.Operator, q.Text.Value, q.Text.Limit, fq(q.Text.Filter))
	}
	return q.Property
}

func fq(q *models.Query) string {
	if q == nil {
		return "none"
	}
	return QueryString(*q)
}

// FilterCheck runs one filter query on the shard and compares with the model.
func (in *Inst) FilterCheck(o *Obs, m *Model, q models.Query, sigPrefix string) {
	// validation is the API's precondition; only valid queries are issued.  The
	// HTTP layer validates the decoded query object and then searches with that
	// same object, so whatever Validate does to it reaches the indexes: the
	// reference is evaluated on a pristine copy, the search gets the validated one.
	validated := cloneQuery(q)
	if err := validated.Validate(); err != nil {
		return
	}
	want, err := EvalFilter(m, q)
	if err != nil {
		panic(err)
	}
	// the implementation folds array query values in place: hand it a copy
	res, err := in.Search(cloneQuery(validated), nil, 0)
	o.Checks++
	if err != nil {
		o.Fail(sigPrefix+"filter-query-error:"+leafClass(q), "%s: %v", QueryString(q), err)
		return
	}
	got := IdSet{}
	for _, r := range res {
		idx := UUIDIndex(r.Id)
		if got[idx] {
			o.Fail(sigPrefix+"filter-duplicate-result", "%s returned point %d twice", QueryString(q), idx)
		}
		got[idx] = true
	}
	if !got.Equal(want) {
		o.Fail(sigPrefix+"filter-wrong-result:"+leafClass(q), "%s returned %v, the documents say %v", QueryString(q), got, want)
	}
	o.Note(QueryString(q), got.String())
}

func cloneQuery(q models.Query) models.Query {
	c := q
	if q.StringArray != nil {
		sa := *q.StringArray
		sa.Value = append([]string{}, q.StringArray.Value...)
		c.StringArray = &sa
	}
	if q.And != nil {
		c.And = make([]models.Query, len(q.And))
		for i := range q.And {
			c.And[i] = cloneQuery(q.And[i])
		}
	}
	if q.Or != nil {
		c.Or = make([]models.Query, len(q.Or))
		for i := range q.Or {
			c.Or[i] = cloneQuery(q.Or[i])
		}
	}
	return c
}

// leafClass names the kind of query for violation signatures.
func leafClass(q models.Query) string {
	switch {
	case q.Property == "_and" || q.Property == "_or":
		return "composite"
	case q.Property == "_id":
		return "_id"
	case q.String != nil:
		return "string/" + q.String.Operator
	case q.Integer != nil:
		return "integer/" + q.Integer.Operator
	case q.Float != nil:
		return "float/" + q.Float.Operator
	case q.StringArray != nil:
		return "stringArray/" + q.StringArray.Operator
	}
	return "other"
}

// ---- query generators ----

var cmpOps = []string{models.OperatorEquals, models.OperatorNotEquals, models.OperatorGreaterThan, models.OperatorGreaterOrEq, models.OperatorLessThan, models.OperatorLessOrEq}

// StringLeaves: every operator x every value (x every end value for inRange).
func StringLeaves(prop string, vals []string) []models.Query {
	var out []models.Query
	for _, v := range vals {
		for _, op := range append(append([]string{}, cmpOps...), models.OperatorStartsWith) {
			out = append(out, models.Query{Property: prop, String: &models.SearchStringOptions{Value: v, Operator: op}})
		}
		for _, e := range vals {
			out = append(out, models.Query{Property: prop, String: &models.SearchStringOptions{Value: v, Operator: models.OperatorInRange, EndValue: e}})
		}
	}
	return out
}

// IntLeaves: every operator x every value.
func IntLeaves(prop string, vals []int64) []models.Query {
	var out []models.Query
	for _, v := range vals {
		for _, op := range cmpOps {
			out = append(out, models.Query{Property: prop, Integer: &models.SearchIntegerOptions{Value: v, Operator: op}})
		}
		for _, e := range vals {
			out = append(out, models.Query{Property: prop, Integer: &models.SearchIntegerOptions{Value: v, Operator: models.OperatorInRange, EndValue: e}})
		}
	}
	return out
}

// FloatLeaves: every operator x every value.
func FloatLeaves(prop string, vals []float64) []models.Query {
	var out []models.Query
	for _, v := range vals {
		for _, op := range cmpOps {
			out = append(out, models.Query{Property: prop, Float: &models.SearchFloatOptions{Value: v, Operator: op}})
		}
		for _, e := range vals {
			out = append(out, models.Query{Property: prop, Float: &models.SearchFloatOptions{Value: v, Operator: models.OperatorInRange, EndValue: e}})
		}
	}
	return out
}

// ArrayLeaves: both operators x every non-empty sub-multiset up to size 2.
func ArrayLeaves(prop string, vals []string) []models.Query {
	var out []models.Query
	var combos [][]string
	for i, a := range vals {
		combos = append(combos, []string{a})
		for _, b := range vals[i:] {
			combos = append(combos, []string{a, b})
		}
	}
	for _, c := range combos {
		for _, op := range []string{models.OperatorContainsAll, models.OperatorContainsAny} {
			out = append(out, models.Query{Property: prop, StringArray: &models.SearchStringArrayOptions{Value: c, Operator: op}})
		}
	}
	return out
}

// Composites: all _and/_or trees of depth <= 2 over a pool of leaves.
func Composites(pool []models.Query) []models.Query {
	var out []models.Query
	and := func(qs ...models.Query) models.Query { return models.Query{Property: "_and", And: qs} }
	or := func(qs ...models.Query) models.Query { return models.Query{Property: "_or", Or: qs} }
	for _, a := range pool {
		out = append(out, and(a), or(a))
		for _, b := range pool {
			out = append(out, and(a, b), or(a, b))
			for _, c := range pool {
				out = append(out, and(a, or(b, c)), or(a, and(b, c)))
			}
		}
	}
	out = append(out, and(pool...), or(pool...))
	return out
}
