package shardlib

import (
	"crypto/sha256"
	"encoding/hex"
	"fmt"
)

func hashParts(parts ...any) string {
	h := sha256.New()
	for _, p := range parts {
		fmt.Fprintf(h, "%v\x00", p)
	}
	return hex.EncodeToString(h.Sum(nil)[:12])
}

// Hash is exported for harnesses.
func Hash(parts ...any) string { return hashParts(parts...) }
