package shardlib

import (
	"fmt"
	"math"
	"sort"
	"sync"

	"github.com/blevesearch/bleve/v2/analysis"
	_ "github.com/blevesearch/bleve/v2/analysis/analyzer/standard"
	"github.com/blevesearch/bleve/v2/registry"
	"github.com/semafind/semadb/conversion"
	"github.com/semafind/semadb/models"
)

// ---- reference distances ----

// VecOf extracts a float vector from a canonical document.
func VecOf(d Doc, prop string) ([]float32, bool) {
	v, ok := Lookup(d, prop)
	if !ok {
		return nil, false
	}
	arr, ok := v.([]any)
	if !ok {
		return nil, false
	}
	out := make([]float32, len(arr))
	for i, e := range arr {
		f, ok := e.(float32)
		if !ok {
			return nil, false
		}
		out[i] = f
	}
	return out, true
}

// MetricEnv describes how an index measures distance right now: the metric
// and, once a binary quantiser is active, its per-dimension threshold.
type MetricEnv struct {
	Metric    string    // configured float metric or hamming/jaccard
	BitMetric string    // "" unless bits are compared
	Threshold []float32 // per dimension, when bits are compared
	PQ        *PQEnv    // non-nil once a product quantiser has been trained
}

// PQEnv is the persisted state of a trained product quantiser: the centroids
// read back from the bucket (k-means starts from a random point, the outcome
// is not predicted) and the stored centroid ids of every point.
type PQEnv struct {
	Sub, K, SubLen int
	Inner          string            // metric applied per sub-vector: euclidean or dot
	Centroids      []float32         // flat, (Sub * K * SubLen)
	Codes          map[int][]byte    // uuid index -> centroid id per sub-vector
	Raw            map[int][]float32 // uuid index -> persisted full vector
	Dists          []float32         // persisted centroid-to-centroid table (Sub * K * K), the point-to-point distance looks up
}

func (p *PQEnv) centroid(sub, c int) []float32 {
	s := sub*p.K*p.SubLen + c*p.SubLen
	return p.Centroids[s : s+p.SubLen]
}

func (p *PQEnv) inner(x, c []float32) float64 {
	s := 0.0
	for i := range x {
		if p.Inner == models.DistanceDot {
			s -= float64(x[i]) * float64(c[i])
		} else {
			d := float64(x[i]) - float64(c[i])
			s += d * d
		}
	}
	return s
}

// Distance is the asymmetric quantised distance between a query and a stored
// point with the given centroid ids.
func (p *PQEnv) Distance(x []float32, code []byte) float64 {
	if len(code) != p.Sub {
		return math.NaN()
	}
	s := 0.0
	for i := 0; i < p.Sub; i++ {
		if int(code[i]) >= p.K {
			return math.NaN()
		}
		s += p.inner(x[i*p.SubLen:(i+1)*p.SubLen], p.centroid(i, int(code[i])))
	}
	return s
}

// CodeOK reports whether code names, for every sub-vector of y, a centroid
// that is nearest to it (ties and float32 rounding either way).  Points present
// at training time are labelled by k-means (euclidean), later points by the
// index metric applied per sub-vector: either notion of "nearest" is accepted.
func (p *PQEnv) CodeOK(y []float32, code []byte) (bool, string) {
	if len(code) != p.Sub {
		return false, fmt.Sprintf("%d centroid ids for %d sub-vectors", len(code), p.Sub)
	}
	euclid := &PQEnv{Sub: p.Sub, K: p.K, SubLen: p.SubLen, Inner: models.DistanceEuclidean, Centroids: p.Centroids}
	for i := 0; i < p.Sub; i++ {
		sub := y[i*p.SubLen : (i+1)*p.SubLen]
		if int(code[i]) >= p.K {
			return false, fmt.Sprintf("centroid id %d >= %d", code[i], p.K)
		}
		okAny := false
		why := ""
		for _, e := range []*PQEnv{p, euclid} {
			got := e.inner(sub, e.centroid(i, int(code[i])))
			nearest := true
			for c := 0; c < p.K; c++ {
				if d := e.inner(sub, e.centroid(i, c)); d < got && !Near(d, got) {
					nearest = false
					why = fmt.Sprintf("sub-vector %d %v is encoded as centroid %d %v (%s distance %g) but centroid %d %v is nearer (%g)", i, sub, code[i], e.centroid(i, int(code[i])), e.Inner, got, c, e.centroid(i, c), d)
				}
			}
			okAny = okAny || nearest
		}
		if !okAny {
			return false, why
		}
	}
	return true, ""
}

// EnvFor derives the MetricEnv of a vector index from its parameters and the
// persisted quantiser state in the bucket dump (nil dump = no learned state).
//
// For a product quantiser pass the uuid-index -> node-id map of the dump as
// well, so that the stored centroid ids can be attributed to points.
func EnvFor(metric string, q *models.Quantizer, dim int, bucket map[string][]byte, nodeIds ...map[int]uint64) (MetricEnv, error) {
	env := MetricEnv{Metric: metric}
	if metric == models.DistanceHamming || metric == models.DistanceJaccard {
		env.BitMetric = metric
		env.Threshold = constVec(dim, 0.5)
		return env, nil
	}
	if q == nil || q.Type == models.QuantizerNone {
		return env, nil
	}
	switch q.Type {
	case models.QuantizerBinary:
		if q.Binary.Threshold != nil {
			env.BitMetric = q.Binary.DistanceMetric
			env.Threshold = constVec(dim, *q.Binary.Threshold)
			return env, nil
		}
		if b, ok := bucket["_binaryQuantizerThreshold"]; ok {
			env.BitMetric = q.Binary.DistanceMetric
			env.Threshold = conversion.BytesToFloat32(append([]byte{}, b...))
		}
		return env, nil
	case models.QuantizerProduct:
		b, ok := bucket["_productQuantizerFlatCentroids"]
		if !ok {
			return env, nil // untrained: the configured metric on the full vectors
		}
		inner := env.Metric
		if inner == models.DistanceCosine {
			// cosine cannot be summed over sub-vectors: the trained quantiser
			// uses squared euclidean distance per sub-vector (newProductQuantizer)
			inner = models.DistanceEuclidean
		}
		pq := &PQEnv{Sub: q.Product.NumSubVectors, K: q.Product.NumCentroids, SubLen: dim / q.Product.NumSubVectors, Inner: inner, Centroids: conversion.BytesToFloat32(append([]byte{}, b...)), Codes: map[int][]byte{}, Raw: map[int][]float32{}}
		if len(pq.Centroids) != pq.Sub*pq.K*pq.SubLen {
			return env, fmt.Errorf("persisted centroids have %d floats, want %d", len(pq.Centroids), pq.Sub*pq.K*pq.SubLen)
		}
		if len(nodeIds) == 0 {
			return env, fmt.Errorf("product quantiser reference needs the node ids")
		}
		for idx, nid := range nodeIds[0] {
			if c, ok := bucket[string(conversion.NodeKey(nid, 'q'))]; ok {
				pq.Codes[idx] = append([]byte{}, c...)
			}
			if v, ok := bucket[string(conversion.NodeKey(nid, 'v'))]; ok {
				pq.Raw[idx] = conversion.BytesToFloat32(append([]byte{}, v...))
			}
		}
		if d, ok := bucket["_productQuantizerCentroidDists"]; ok {
			pq.Dists = conversion.BytesToFloat32(append([]byte{}, d...))
		}
		env.PQ = pq
		return env, nil
	}
	return env, fmt.Errorf("reference for quantizer %s not implemented", q.Type)
}

func constVec(n int, v float32) []float32 {
	out := make([]float32, n)
	for i := range out {
		out[i] = v
	}
	return out
}

// RefDistanceOf is the index distance between a query and the stored point id
// with (model) vector y: the quantised distance once a product quantiser is
// trained (NaN if the point has no stored centroid ids), RefDistance otherwise.
func RefDistanceOf(env MetricEnv, id int, x, y []float32) float64 {
	if env.PQ != nil {
		return env.PQ.Distance(x, env.PQ.Codes[id])
	}
	return RefDistance(env, x, y)
}

// VectorKeysCheck: the vector store of an index holds an entry (full vector 'v' and/or quantised
// form 'q') for exactly the live points that carry the vector (plus the entry node of a graph
// index): nothing may survive the deletion of its point, whatever form it was stored in.
func VectorKeysCheck(o *Obs, tag string, bucket map[string][]byte, nodeIds map[int]uint64, m *Model, prop string, extra ...uint64) {
	want := map[uint64]int{}
	for _, id := range m.SortedIds() {
		if _, ok := VecOf(m.Docs[id], prop); ok {
			if nid, ok := nodeIds[id]; ok {
				want[nid] = id
			}
		}
	}
	for _, e := range extra {
		want[e] = -1
	}
	have := map[uint64]bool{}
	o.Checks++
	for k := range bucket {
		if len(k) != 10 || k[0] != 'n' || (k[9] != 'v' && k[9] != 'q') {
			continue
		}
		nid := conversion.BytesToUint64([]byte(k[1:9]))
		have[nid] = true
		if _, ok := want[nid]; !ok {
			o.Fail(tag+"-stored-vector-for-dead-node", "the vector store holds an entry %q for node id %d, which belongs to no live point with field %s (live node ids %v)", k[9:], nid, prop, want)
			return
		}
	}
	for nid, id := range want {
		if !have[nid] && id >= 0 {
			o.Fail(tag+"-live-point-without-stored-vector", "point %d (node id %d) carries field %s but the vector store has neither a full nor a quantised entry for it", id, nid, prop)
			return
		}
	}
}

// PQCheck verifies the persisted product-quantiser encoding of every point
// that carries the vector: centroid ids present and naming a nearest centroid.
func PQCheck(o *Obs, tag string, env MetricEnv, m *Model, prop string) {
	if env.PQ == nil {
		return
	}
	// the centroid-to-centroid table that the point-to-point distance (graph construction) sums
	// over must hold, for every sub-vector and every pair incl. a centroid with itself, the
	// per-sub-vector metric between the two persisted centroids
	pq := env.PQ
	o.Checks++
	if len(pq.Dists) != pq.Sub*pq.K*pq.K {
		o.Fail(tag+"-pq-centroid-distance-table-wrong", "the persisted centroid distance table has %d entries, want %d", len(pq.Dists), pq.Sub*pq.K*pq.K)
	} else {
	table:
		for sub := 0; sub < pq.Sub; sub++ {
			for a := 0; a < pq.K; a++ {
				for b := 0; b < pq.K; b++ {
					want := pq.inner(pq.centroid(sub, a), pq.centroid(sub, b))
					if got := float64(pq.Dists[sub*pq.K*pq.K+a*pq.K+b]); !Near(got, want) {
						o.Fail(tag+"-pq-centroid-distance-table-wrong", "sub-vector %d: the table entry for centroids %d and %d (%v, %v) is %g, their %s distance is %g", sub, a, b, pq.centroid(sub, a), pq.centroid(sub, b), got, pq.Inner, want)
						break table
					}
				}
			}
		}
	}
	for _, id := range m.SortedIds() {
		v, ok := VecOf(m.Docs[id], prop)
		if !ok {
			continue
		}
		o.Checks++
		if raw, ok := env.PQ.Raw[id]; !ok || fmt.Sprint(raw) != fmt.Sprint(v) {
			o.Fail(tag+"-pq-persisted-vector-differs", "point %d was written with vector %v, the vector store holds %v", id, v, raw)
		}
		code, has := env.PQ.Codes[id]
		if !has {
			o.Fail(tag+"-pq-point-without-centroid-ids", "point %d (vector %v) has no stored centroid ids although the quantiser is trained", id, v)
			continue
		}
		if ok, why := env.PQ.CodeOK(v, code); !ok {
			o.Fail(tag+"-pq-code-not-nearest-centroid", "point %d vector %v code %v: %s", id, v, code, why)
		}
	}
}

// RefDistance is the definition of the index distance in float64.
func RefDistance(env MetricEnv, x, y []float32) float64 {
	if env.BitMetric != "" {
		diff, inter, union := 0, 0, 0
		for i := range x {
			a, b := x[i] > env.Threshold[i], y[i] > env.Threshold[i]
			if a != b {
				diff++
			}
			if a && b {
				inter++
			}
			if a || b {
				union++
			}
		}
		if env.BitMetric == models.DistanceHamming {
			return float64(diff)
		}
		if union == 0 {
			return 0
		}
		return 1 - float64(inter)/float64(union)
	}
	switch env.Metric {
	case models.DistanceEuclidean:
		s := 0.0
		for i := range x {
			d := float64(x[i]) - float64(y[i])
			s += d * d
		}
		return f32range(s)
	case models.DistanceDot, models.DistanceCosine:
		s := 0.0
		for i := range x {
			s += float64(x[i]) * float64(y[i])
		}
		if env.Metric == models.DistanceDot {
			return f32range(-s)
		}
		return 1 - s
	case models.DistanceHaversine:
		const r = math.Pi / 180
		la1, lo1, la2, lo2 := float64(x[0])*r, float64(x[1])*r, float64(y[0])*r, float64(y[1])*r
		a := math.Pow(math.Sin((la1-la2)/2), 2) + math.Cos(la1)*math.Cos(la2)*math.Pow(math.Sin((lo1-lo2)/2), 2)
		return 6371000 * 2 * math.Asin(math.Sqrt(a))
	}
	panic("unknown metric " + env.Metric)
}

func tol(d float64) float64 { return 1e-4*math.Abs(d) + 1e-5 }

// Near reports whether two distances / scores agree up to float32 rounding.
func Near(a, b float64) bool {
	if a == b || (math.IsNaN(a) && math.IsNaN(b)) {
		// equal infinities (a float32 distance that overflowed on both sides), or 0 * Inf on both sides
		return true
	}
	if math.IsInf(a, 0) || math.IsInf(b, 0) || math.IsNaN(a) || math.IsNaN(b) {
		return false // an infinity (or NaN) is near nothing but itself: the tolerance of an infinity is infinite
	}
	return math.Abs(a-b) <= tol(a)+tol(b)
}

// f32range maps a float64 value of the definition onto what a float32 result can hold:
// beyond the largest float32 the kernels return an infinity.
func f32range(s float64) float64 {
	if s > math.MaxFloat32 {
		return math.Inf(1)
	}
	if s < -math.MaxFloat32 {
		return math.Inf(-1)
	}
	return s
}

// ---- vector searches ----

// RankCheck checks a vector search answer.  exact demands the k nearest
// admissible points (ties at the cut resolved either way); otherwise only the
// safety part (live, has the field, in the filter, no duplicate, <= limit,
// sorted, correct distances, hybrid = -weight*distance).
func RankCheck(o *Obs, tag string, env MetricEnv, m *Model, prop string, query []float32, limit int, weight *float32, filter IdSet, res []models.SearchResult, exact bool, desc string) {
	o.Checks++
	w := float32(1)
	if weight != nil {
		w = *weight
	}
	// admissible points and their reference distances
	ref := map[int]float64{}
	for id, d := range m.Docs {
		v, ok := VecOf(d, prop)
		if !ok {
			continue
		}
		if filter != nil && !filter[id] {
			continue
		}
		ref[id] = RefDistanceOf(env, id, query, v)
	}
	if len(res) > limit {
		o.Fail(tag+"-more-than-limit", "%s: %d results, limit %d", desc, len(res), limit)
	}
	seen := IdSet{}
	prev := math.Inf(-1)
	var kth float64
	for i, r := range res {
		idx := UUIDIndex(r.Id)
		if seen[idx] {
			o.Fail(tag+"-duplicate-result", "%s: point %d returned twice", desc, idx)
		}
		seen[idx] = true
		if _, live := m.Docs[idx]; !live {
			o.Fail(tag+"-returns-dead-or-foreign-point", "%s: returned id %s (point %d) which is not a stored point", desc, r.Id, idx)
			continue
		}
		want, ok := ref[idx]
		if !ok {
			if _, has := VecOf(m.Docs[idx], prop); !has {
				o.Fail(tag+"-returns-point-without-vector", "%s: returned point %d which has no field %s", desc, idx, prop)
			} else {
				o.Fail(tag+"-returns-point-outside-filter", "%s: returned point %d which is outside the pre-filter %v", desc, idx, filter)
			}
			continue
		}
		if r.Distance == nil {
			o.Fail(tag+"-missing-distance", "%s: result %d has no _distance", desc, idx)
			continue
		}
		got := float64(*r.Distance)
		if !Near(got, want) {
			o.Fail(tag+"-wrong-distance", "%s: point %d reported distance %g, the index distance is %g", desc, idx, got, want)
		}
		if got < prev && !Near(got, prev) {
			o.Fail(tag+"-not-sorted", "%s: distance %g after %g at position %d", desc, got, prev, i)
		}
		prev = got
		kth = got
		// the hybrid score is a float32 as well: -weight*distance beyond its range is an infinity
		if hs := float64(r.HybridScore); !Near(hs, f32range(-float64(w)*got)) {
			o.Fail(tag+"-wrong-hybrid-score", "%s: point %d hybrid score %g, want -weight*distance = %g", desc, idx, hs, -float64(w)*got)
		}
	}
	if exact {
		k := limit
		if len(ref) < k {
			k = len(ref)
		}
		if len(res) != k {
			o.Fail(tag+"-wrong-result-count", "%s: %d results, want min(limit, admissible points) = %d (admissible %v)", desc, len(res), k, keysF(ref))
		} else if k > 0 {
			for id, d := range ref {
				if !seen[id] && d < kth && !Near(d, kth) {
					o.Fail(tag+"-misses-nearer-point", "%s: point %d at distance %g is nearer than the last returned distance %g but missing (returned %v)", desc, id, d, kth, seen)
				}
			}
		}
	}
	o.Note(desc, seen.String())
}

func keysF(m map[int]float64) []int {
	var k []int
	for id := range m {
		k = append(k, id)
	}
	sort.Ints(k)
	return k
}

// ---- text ----

var analyserCache = registry.NewCache()

func stdAnalyser() analysis.Analyzer {
	a, err := analyserCache.AnalyzerNamed("standard")
	if err != nil {
		panic(err)
	}
	return a
}

// Terms analyses a text the way the index's declared analyser does (bleve's
// standard analyser is part of the trusted base).
func Terms(text string) (freq map[string]int, length int) {
	termsMu.Lock()
	if c, ok := termsMemo[text]; ok {
		termsMu.Unlock()
		return c.freq, c.n
	}
	termsMu.Unlock()
	freq = map[string]int{}
	ts := stdAnalyser().Analyze([]byte(text))
	for _, t := range ts {
		freq[string(t.Term)]++
	}
	termsMu.Lock()
	termsMemo[text] = termsEntry{freq, len(ts)}
	termsMu.Unlock()
	return freq, len(ts)
}

// the reference analyses the same few texts over and over: memoised (callers
// treat the returned map as read-only)
type termsEntry struct {
	freq map[string]int
	n    int
}

var (
	termsMu   sync.Mutex
	termsMemo = map[string]termsEntry{}
)

// TextRef is the reference tf-idf state of one text index over the model.
type TextRef struct {
	N    int
	DF   map[string]int
	Docs map[int]struct {
		Freq map[string]int
		Len  int
	}
}

// BuildTextRef recomputes corpus size and document frequencies from the model.
func BuildTextRef(m *Model, prop string) *TextRef {
	tr := &TextRef{DF: map[string]int{}, Docs: map[int]struct {
		Freq map[string]int
		Len  int
	}{}}
	for id, d := range m.Docs {
		v, ok := Lookup(d, prop)
		if !ok {
			continue
		}
		s, ok := v.(string)
		if !ok {
			continue
		}
		f, l := Terms(s)
		if l == 0 {
			continue
		}
		tr.N++
		tr.Docs[id] = struct {
			Freq map[string]int
			Len  int
		}{f, l}
		for t := range f {
			tr.DF[t]++
		}
	}
	return tr
}

// Score is the definition: sum over distinct query terms of tf * log10(N/(df+1)).
func (tr *TextRef) Score(id int, qterms map[string]int) float64 {
	d := tr.Docs[id]
	s := 0.0
	for t := range qterms {
		tf := float64(d.Freq[t]) / float64(d.Len)
		s += tf * math.Log10(float64(tr.N)/float64(tr.DF[t]+1))
	}
	return s
}

// Matches returns the documents matching the operator.
func (tr *TextRef) Matches(qterms map[string]int, operator string, filter IdSet) IdSet {
	out := IdSet{}
	if len(qterms) == 0 {
		return out
	}
	for id, d := range tr.Docs {
		if filter != nil && !filter[id] {
			continue
		}
		n := 0
		for t := range qterms {
			if d.Freq[t] > 0 {
				n++
			}
		}
		if (operator == models.OperatorContainsAll && n == len(qterms)) || (operator == models.OperatorContainsAny && n > 0) {
			out[id] = true
		}
	}
	return out
}

// TextCheck checks a text search answer against the reference.
func TextCheck(o *Obs, tr *TextRef, opt models.SearchTextOptions, filter IdSet, res []models.SearchResult, desc string) {
	o.Checks++
	qterms, _ := Terms(opt.Value)
	match := tr.Matches(qterms, opt.Operator, filter)
	w := float32(1)
	if opt.Weight != nil {
		w = *opt.Weight
	}
	k := opt.Limit
	if len(match) < k {
		k = len(match)
	}
	if len(res) != k {
		o.Fail("text-wrong-result-count", "%s: %d results, want min(limit,matches)=%d; matching documents %v", desc, len(res), k, match)
	}
	seen := IdSet{}
	prev := math.Inf(1)
	last := 0.0
	for i, r := range res {
		idx := UUIDIndex(r.Id)
		if seen[idx] {
			o.Fail("text-duplicate-result", "%s: point %d twice", desc, idx)
		}
		seen[idx] = true
		if !match[idx] {
			o.Fail("text-returns-non-matching-document", "%s: returned point %d which does not match (matching: %v)", desc, idx, match)
			continue
		}
		if r.Score == nil {
			o.Fail("text-missing-score", "%s: point %d has no _score", desc, idx)
			continue
		}
		got, want := float64(*r.Score), tr.Score(idx, qterms)
		if !Near(got, want) {
			o.Fail("text-wrong-score", "%s: point %d score %g, tf-idf over the current corpus (N=%d) gives %g", desc, idx, got, tr.N, want)
		}
		if got > prev && !Near(got, prev) {
			o.Fail("text-not-sorted", "%s: score %g after %g at position %d", desc, got, prev, i)
		}
		prev = got
		last = got
		if hs := float64(r.HybridScore); !Near(hs, float64(w)*got) {
			o.Fail("text-wrong-hybrid-score", "%s: point %d hybrid %g, want weight*score=%g", desc, idx, hs, float64(w)*got)
		}
	}
	if len(res) == k && k > 0 {
		for id := range match {
			if s := tr.Score(id, qterms); !seen[id] && s > last && !Near(s, last) {
				o.Fail("text-misses-higher-scoring-document", "%s: point %d scores %g > last returned %g but is missing", desc, id, s, last)
			}
		}
	}
	o.Note(desc, seen.String())
}
