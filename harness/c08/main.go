// C08 — committed data is durable and answers do not depend on cache state or
// backend.  The same history runs in lock-step on five instances (bbolt with an
// unlimited, a 1-byte and a disabled shared cache, bbolt reopened after every
// batch, memstore); after every batch every instance must answer the whole
// battery like the reference model (hence like each other), and closing and
// reopening must leave the file's buckets byte-identical.
package main

import (
	"encoding/json"
	"fmt"
	"os"
	"strings"
	"time"

	"github.com/semafind/semadb/models"
	sl "semaverif/harness/shardlib"

	"semaverif/engine/faultx"
	"semaverif/engine/harness"
	"semaverif/engine/pool"
	"semaverif/engine/seqx"
)

type cfgT struct {
	Quant string `json:"quant"`
}

func f32(v float32) *float32 { return &v }
func ptr[T any](v T) *T      { return &v }

func schema(quant string) models.IndexSchema {
	var q *models.Quantizer
	if quant == "product" {
		// trigger threshold 3 instead of the HTTP layer's minimum of 1000: same code path, training reachable within the bound
		q = &models.Quantizer{Type: models.QuantizerProduct, Product: &models.ProductQuantizerParameters{NumCentroids: 2, NumSubVectors: 2, TriggerThreshold: 3}}
	}
	if quant == "binlearned" {
		q = &models.Quantizer{Type: models.QuantizerBinary, Binary: &models.BinaryQuantizerParamaters{TriggerThreshold: 3, DistanceMetric: models.DistanceHamming}}
	}
	return models.IndexSchema{
		"vec":  {Type: models.IndexTypeVectorVamana, VectorVamana: &models.IndexVectorVamanaParameters{VectorSize: 4, DistanceMetric: models.DistanceEuclidean, SearchSize: 75, DegreeBound: 64, Alpha: 1.2, Quantizer: q}},
		"flat": {Type: models.IndexTypeVectorFlat, VectorFlat: &models.IndexVectorFlatParameters{VectorSize: 4, DistanceMetric: models.DistanceEuclidean, Quantizer: q}},
		"ham":  {Type: models.IndexTypeVectorFlat, VectorFlat: &models.IndexVectorFlatParameters{VectorSize: 4, DistanceMetric: models.DistanceHamming}},
		"txt":  {Type: models.IndexTypeText, Text: &models.IndexTextParameters{Analyser: "standard"}},
		"s":    {Type: models.IndexTypeString, String: &models.IndexStringParameters{CaseSensitive: false}},
		"tags": {Type: models.IndexTypeStringArray, StringArray: &models.IndexStringArrayParameters{}},
		"a":    {Type: models.IndexTypeInteger},
		"f":    {Type: models.IndexTypeFloat},
	}
}

var stored, queries = sl.VectorPool(models.DistanceEuclidean)
var hstored, hqueries = sl.VectorPool(models.DistanceHamming)

// two 40000-byte values that differ in their last byte only
var longA, longB = strings.Repeat("a", 39999) + "A", strings.Repeat("a", 39999) + "B"

func doc(i int) sl.Doc {
	return sl.Doc{"vec": stored[i%8], "flat": stored[(i+3)%8], "ham": hstored[i%8], "txt": []string{"quick brown fox", "quick quick dog", "lazy dog", "zebra fox"}[i%4], "s": []string{"Ab", "aB", "b"}[i%3], "tags": []string{"x", fmt.Sprintf("t%d", i%2)}, "a": int64(i%3 - 1), "f": float64(i) / 2}
}

func symbols() *sl.Symbols {
	return sl.NewSymbols(
		sl.Op{Name: "ins1", Kind: "ins", Ids: []int{1}, Docs: []sl.Doc{doc(0)}},
		sl.Op{Name: "ins2,3", Kind: "ins", Ids: []int{2, 3}, Docs: []sl.Doc{doc(1), doc(2)}},
		sl.Op{Name: "ins4,5(bare)", Kind: "ins", Ids: []int{4, 5}, Docs: []sl.Doc{doc(3), {"note": "bare"}}},
		sl.Op{Name: "upd1(all fields)", Kind: "upd", Ids: []int{1}, Docs: []sl.Doc{doc(5)}},
		sl.Op{Name: "upd2(remove fields)", Kind: "upd", Ids: []int{2}, Docs: []sl.Doc{{"vec": "_delete", "flat": "_delete", "ham": "_delete", "txt": "_delete", "s": "_delete", "tags": "_delete", "a": "_delete", "f": "_delete"}}},
		sl.Op{Name: "upd2,5(add fields)", Kind: "upd", Ids: []int{2, 5}, Docs: []sl.Doc{doc(6), doc(7)}},
		sl.Op{Name: "upd3(text,vec)", Kind: "upd", Ids: []int{3}, Docs: []sl.Doc{{"txt": "quick zebra", "vec": stored[7]}}},
		// one batch that takes the indexed fields from one point and gives them to another:
		// the number of indexed values is the same before and after, but not in between
		sl.Op{Name: "ins7,8,9(9 bare)", Kind: "ins", Ids: []int{7, 8, 9}, Docs: []sl.Doc{doc(0), doc(1), {"note": "bare"}}},
		sl.Op{Name: "upd8,9(8 loses its fields, 9 gains them)", Kind: "upd", Ids: []int{8, 9}, Docs: []sl.Doc{{"vec": "_delete", "flat": "_delete", "ham": "_delete", "txt": "_delete", "s": "_delete", "tags": "_delete", "a": "_delete", "f": "_delete"}, doc(2)}},
		// the same id twice in one batch: set every indexed field, then remove them (and the reverse)
		sl.Op{Name: "upd3,3(set then remove)", Kind: "upd", Ids: []int{3, 3}, Docs: []sl.Doc{doc(5), {"vec": "_delete", "flat": "_delete", "ham": "_delete", "txt": "_delete", "s": "_delete", "tags": "_delete", "a": "_delete", "f": "_delete"}}},
		sl.Op{Name: "upd3,3(remove then set)", Kind: "upd", Ids: []int{3, 3}, Docs: []sl.Doc{{"vec": "_delete", "flat": "_delete", "ham": "_delete", "txt": "_delete", "s": "_delete", "tags": "_delete", "a": "_delete", "f": "_delete"}, doc(6)}},
		sl.Op{Name: "queries(between batches)", Kind: "noop"},
		sl.Op{Name: "del1", Kind: "del", Ids: []int{1}},
		sl.Op{Name: "del2,3", Kind: "del", Ids: []int{2, 3}},
		sl.Op{Name: "ins1(again)", Kind: "ins", Ids: []int{1}, Docs: []sl.Doc{doc(4)}},
		// the same batches meeting a storage error after the index work is done
		// (the counters are written last): they must leave no trace in any cache
		// indexed string values longer than the file backend's key size (bbolt: 32768 bytes): the file backend
		// may refuse such a batch, the in-memory backend does not - an implementation-only failure that the
		// model leaves out: if the file-backed members refuse, the history simply does not contain the batch
		// (and the in-memory members are not given it); if they accept, everybody must answer alike
		sl.Op{Name: "ins10(40000-byte string A) !store-may-refuse", Kind: "ins", Ids: []int{10}, Docs: []sl.Doc{{"s": longA, "note": "long"}}},
		sl.Op{Name: "ins11(40000-byte string B) !store-may-refuse", Kind: "ins", Ids: []int{11}, Docs: []sl.Doc{{"s": longB, "note": "long"}}},
		sl.Op{Name: "del2,3 !storage-fault", Kind: "del", Ids: []int{2, 3}},
		sl.Op{Name: "ins6 !storage-fault", Kind: "ins", Ids: []int{6}, Docs: []sl.Doc{doc(6)}},
		sl.Op{Name: "upd3(text,vec) !storage-fault", Kind: "upd", Ids: []int{3}, Docs: []sl.Doc{{"txt": "quick zebra", "vec": stored[7]}}},
	)
}

var universe = []int{1, 2, 3, 4, 5, 7, 8, 9}

type member struct {
	name string
	in   *sl.Inst
}

type system struct {
	members  []member
	m        *sl.Model
	syms     *sl.Symbols
	obs      sl.Obs
	quant    string
	terminal bool
	applied  []sl.Op
	// refusedByStore counts batches the file backend refused for its key size (left out of the history)
	refusedByStore int
}

func factory(raw json.RawMessage) (seqx.System, error) {
	var c cfgT
	if err := json.Unmarshal(raw, &c); err != nil {
		return nil, err
	}
	sc := schema(c.Quant)
	s := &system{m: sl.NewModel(sc, 1<<20), syms: symbols(), quant: c.Quant}
	for _, mc := range []struct {
		name string
		cfg  sl.InstCfg
	}{
		{"A:bbolt/unlimited-cache", sl.InstCfg{Backend: "bbolt", CacheSize: -1, Schema: sc, Proxy: true}},
		{"B:bbolt/1-byte-cache", sl.InstCfg{Backend: "bbolt", CacheSize: 1, Schema: sc, Proxy: true}},
		{"C:bbolt/cache-disabled", sl.InstCfg{Backend: "bbolt", CacheSize: 0, Schema: sc, Proxy: true}},
		{"D:bbolt/reopened-after-every-batch", sl.InstCfg{Backend: "bbolt", CacheSize: -1, Schema: sc, Proxy: true}},
		{"E:memstore", sl.InstCfg{Backend: "mem", CacheSize: -1, Schema: sc}},
		{"F:memstore/cache-disabled", sl.InstCfg{Backend: "mem", CacheSize: 0, Schema: sc}},
	} {
		in, err := sl.NewInst(mc.cfg)
		if err != nil {
			return nil, err
		}
		s.members = append(s.members, member{mc.name, in})
	}
	return s, nil
}

func (s *system) Apply(raw json.RawMessage) []seqx.Viol {
	var ref sl.OpRef
	json.Unmarshal(raw, &ref)
	op, _ := s.syms.Get(ref.Name)
	if strings.HasSuffix(op.Name, "!storage-fault") {
		return s.applyFaulty(op)
	}
	if op.Kind == "noop" && strings.HasPrefix(op.Name, "queries") {
		// searches between two write batches: they change no stored data but they
		// change what the shared caches hold (a flat search scans and loads every
		// vector, a graph search loads nodes, filters load term sets)
		fmt.Fprintf(os.Stderr, "@@J-APPLY %s\n", op.Name)
		for _, mb := range s.members {
			mb.in.Search(models.Query{Property: "flat", VectorFlat: &models.SearchVectorFlatOptions{Vector: queries[0], Operator: models.OperatorNear, Limit: 3}}, nil, 0)
			mb.in.Search(models.Query{Property: "ham", VectorFlat: &models.SearchVectorFlatOptions{Vector: hqueries[0], Operator: models.OperatorNear, Limit: 3}}, nil, 0)
			mb.in.Search(models.Query{Property: "vec", VectorVamana: &models.SearchVectorVamanaOptions{Vector: queries[1], Operator: models.OperatorNear, SearchSize: 75, Limit: 3}}, nil, 0)
			mb.in.Search(models.Query{Property: "txt", Text: &models.SearchTextOptions{Value: "quick fox", Operator: models.OperatorContainsAny, Limit: 3}}, nil, 0)
			mb.in.Search(models.Query{Property: "s", String: &models.SearchStringOptions{Value: "a", Operator: models.OperatorGreaterThan}}, nil, 0)
		}
		fmt.Fprintf(os.Stderr, "@@J-OK %s\n", op.Name)
		s.applied = append(s.applied, op)
		return nil
	}
	if strings.HasSuffix(op.Name, "!store-may-refuse") {
		if _, stored := s.m.Docs[op.Ids[0]]; stored {
			return nil // already in the history: the plain duplicate-id rejection is covered elsewhere
		}
		fmt.Fprintf(os.Stderr, "@@J-APPLY %s\n", op.Name)
		refused, accepted := 0, 0
		var firstErr error
		for _, mb := range s.members {
			if mb.in.Cfg.Backend == "mem" {
				continue
			}
			got := mb.in.ApplySettled(op)
			if got.Err != nil {
				refused++
				firstErr = got.Err
				if !strings.Contains(got.Err.Error(), "key too large") {
					return []seqx.Viol{{Sig: "rejected-batch-that-must-be-accepted", Detail: fmt.Sprintf("%s: %s refused for a reason other than the storage engine's key size: %v", mb.name, op.Name, got.Err)}}
				}
			} else {
				accepted++
			}
			if sig, detail := sl.LateViolation(op, got); sig != "" {
				return []seqx.Viol{{Sig: sig, Detail: mb.name + ": " + detail}}
			}
		}
		if refused > 0 && accepted > 0 {
			return []seqx.Viol{{Sig: "file-backed-members-disagree-on-acceptance", Detail: fmt.Sprintf("%s: %d file-backed members accepted, %d refused (%v)", op.Name, accepted, refused, firstErr)}}
		}
		if refused > 0 {
			// not part of the history of successful batches: the model and the in-memory members stay as they are
			fmt.Fprintf(os.Stderr, "@@J-FAILED %s\n", op.Name)
			s.refusedByStore++
			return nil
		}
		exp := s.m.Apply(op)
		for _, mb := range s.members {
			if mb.in.Cfg.Backend != "mem" {
				continue
			}
			got := mb.in.ApplySettled(op)
			if sig, detail := sl.CompareResult(op, exp, got); sig != "" {
				return []seqx.Viol{{Sig: sig, Detail: mb.name + ": " + detail}}
			}
		}
		fmt.Fprintf(os.Stderr, "@@J-OK %s\n", op.Name)
		s.applied = append(s.applied, op)
		return nil
	}
	exp := s.m.Apply(op)
	tag := ""
	if exp.Reject {
		tag = " expect-reject"
	}
	fmt.Fprintf(os.Stderr, "@@J-APPLY %s%s\n", op.Name, tag)
	failed := false
	for _, mb := range s.members {
		if mb.in.Cfg.Backend == "mem" && exp.Reject {
			continue // the in-memory backend is compared for histories of successful batches only
		}
		got := mb.in.ApplySettled(op)
		failed = failed || got.Err != nil
		if sig, detail := sl.CompareResult(op, exp, got); sig != "" {
			return []seqx.Viol{{Sig: sig, Detail: mb.name + ": " + detail}}
		}
		if sig, detail := sl.LateViolation(op, got); sig != "" {
			return []seqx.Viol{{Sig: sig, Detail: mb.name + ": " + detail}}
		}
	}
	if failed {
		fmt.Fprintf(os.Stderr, "@@J-FAILED %s\n", op.Name)
		if len(op.Ids) > 1 {
			s.terminal = true // F4: see shardlib.ShardSystem
		}
	} else {
		fmt.Fprintf(os.Stderr, "@@J-OK %s\n", op.Name)
		s.applied = append(s.applied, op)
	}
	return nil
}

// applyFaulty runs a batch with an injected storage error on the file-backed
// instances: the last Put the batch issues on the points bucket for updates,
// the counter write for inserts and deletes.  The model does not change; the
// in-memory backend (no rollback, successful batches only) sits this one out.
func (s *system) applyFaulty(op sl.Op) []seqx.Viol {
	fmt.Fprintf(os.Stderr, "@@J-APPLY %s expect-reject\n", op.Name)
	noop := true
	for _, id := range op.Ids {
		if _, ok := s.m.Docs[id]; ok == (op.Kind != "ins") {
			noop = false
		}
	}
	for _, mb := range s.members {
		if mb.in.Proxy == nil {
			continue
		}
		f := &faultx.Fault{Tx: 1, Bucket: "internal", Kind: faultx.KPut, Ordinal: 1, Action: "fail"}
		if op.Kind == "upd" {
			f = &faultx.Fault{Tx: 1, Bucket: "points", Kind: faultx.KPut, Ordinal: 3, Action: "fail"}
		}
		mb.in.Proxy.Arm(f, mb.in.Path+".snap")
		got := mb.in.ApplySettled(op)
		fired := mb.in.Proxy.Fired()
		mb.in.Proxy.Arm(nil, "")
		if fired && got.Err == nil {
			return []seqx.Viol{{Sig: "storage-error-swallowed", Detail: mb.name + ": " + op.Name + " met an injected storage error but reported success"}}
		}
		if !fired && got.Err == nil && !noop {
			// the batch did not reach the faulted operation although it had work to do
			continue
		}
		if sig, detail := sl.LateViolation(op, got); sig != "" {
			return []seqx.Viol{{Sig: sig, Detail: mb.name + ": " + detail}}
		}
	}
	fmt.Fprintf(os.Stderr, "@@J-FAILED %s\n", op.Name)
	if len(op.Ids) > 1 {
		s.terminal = true
	}
	return nil
}

func (s *system) insertOnly() bool {
	for _, o := range s.applied {
		if o.Kind != "ins" && len(o.Ids) > 0 {
			return false
		}
	}
	return true
}

func (s *system) battery(name string, in *sl.Inst) {
	o := &sl.Obs{}
	defer func() {
		for _, v := range o.Viols {
			s.obs.Fail(v.Sig, "%s: %s", name, v.Detail)
		}
		s.obs.Checks += o.Checks
		s.obs.Note(name, o.Outcome())
	}()
	in.PointsBattery(o, s.m, universe)
	// filters
	var qs []models.Query
	qs = append(qs, sl.StringLeaves("s", []string{"ab", "B"})...)
	for _, d := range s.m.Docs {
		if v, _ := d["s"].(string); len(v) > 1000 {
			// a long value is stored: ask for it, for its sibling and for a prefix beyond the key size
			qs = append(qs, sl.StringLeaves("s", []string{longA, longB, longA[:33000]})...)
			break
		}
	}
	qs = append(qs, sl.IntLeaves("a", []int64{-1, 0, 1})...)
	qs = append(qs, sl.FloatLeaves("f", []float64{0, 1.5})...)
	qs = append(qs, sl.ArrayLeaves("tags", []string{"x", "t1"})...)
	for _, q := range qs {
		in.FilterCheck(o, s.m, q, "")
	}
	d, err := in.Dump()
	if err != nil {
		o.Fail("dump-error", "%v", err)
		return
	}
	sc := in.Cfg.Schema
	// flat indexes: exact
	for _, p := range []string{"flat", "ham"} {
		params := sc[p].VectorFlat
		env, err := sl.EnvFor(params.DistanceMetric, params.Quantizer, 4, d["index/vectorFlat/"+p], sl.NodeIds(d))
		if err != nil {
			o.Fail("harness-env", "%v", err)
			continue
		}
		sl.PQCheck(o, "flat", env, s.m, p)
		sl.VectorKeysCheck(o, "flat", d["index/vectorFlat/"+p], sl.NodeIds(d), s.m, p)
		qv := queries
		if p == "ham" {
			qv = hqueries
		}
		for qi, q := range qv {
			for _, limit := range []int{1, 3, 75} {
				for _, f := range []*models.Query{nil, ptr(sl.IdQuery(1, 2, 5))} {
					var fset sl.IdSet
					if f != nil {
						fset, _ = sl.EvalFilter(s.m, *f)
					}
					desc := fmt.Sprintf("%s near q%d limit %d filter %v", p, qi, limit, f != nil)
					res, err := in.Search(models.Query{Property: p, VectorFlat: &models.SearchVectorFlatOptions{Vector: q, Operator: models.OperatorNear, Limit: limit, Filter: f}}, nil, 0)
					if err != nil {
						o.Checks++
						o.Fail("flat-search-error", "%s: %v", desc, err)
						continue
					}
					sl.RankCheck(o, "flat", env, s.m, p, q, limit, nil, fset, res, true, desc)
				}
			}
		}
	}
	// text
	tr := sl.BuildTextRef(s.m, "txt")
	for _, qs := range []string{"quick", "quick fox", "zebra dog", "the"} {
		for _, op := range []string{models.OperatorContainsAll, models.OperatorContainsAny} {
			for _, limit := range []int{1, 75} {
				opt := models.SearchTextOptions{Value: qs, Operator: op, Limit: limit}
				res, err := in.Search(models.Query{Property: "txt", Text: &opt}, nil, 0)
				desc := fmt.Sprintf("txt %s %q limit %d", op, qs, limit)
				if err != nil {
					o.Checks++
					o.Fail("text-search-error", "%s: %v", desc, err)
					continue
				}
				sl.TextCheck(o, tr, opt, nil, res, desc)
			}
		}
	}
	// graph search: safety always, exactness in the stated regimes
	vp := *sc["vec"].VectorVamana
	in.VamanaBattery(o, s.m, sl.VamanaQueryCfg{Prop: "vec", Params: vp, Queries: queries, Limits: []int{1, 75}, SearchSizes: []int{75}, Weights: []*float32{nil}, Filters: []sl.NamedFilter{{Name: "none"}, {Name: "ids{1,2,5}", Q: ptr(sl.IdQuery(1, 2, 5))}}, InsertOnly: s.insertOnly()})
	in.GraphCheck(o, s.m, "vec", vp)
}

func (s *system) Check() []seqx.Viol {
	s.obs = sl.Obs{Checks: s.obs.Checks}
	for _, mb := range s.members {
		if mb.name[0] == 'D' {
			// durability: what is in the file now must be what a fresh process finds
			before, err := mb.in.Dump()
			if err != nil {
				s.obs.Fail("dump-error", "%v", err)
				continue
			}
			if err := mb.in.Reopen(); err != nil {
				s.obs.Fail("reopen-failed", "%v", err)
				continue
			}
			after, _ := mb.in.Dump()
			s.obs.Checks++
			if sl.DumpDigest(before) != sl.DumpDigest(after) {
				s.obs.Fail("reopen-changes-buckets", "%s: bucket contents differ before and after close/reopen", mb.name)
			}
			s.battery(mb.name, mb.in)
			// reads must not write
			final, _ := mb.in.Dump()
			s.obs.Checks++
			if sl.DumpDigest(after) != sl.DumpDigest(final) {
				s.obs.Fail("queries-change-buckets", "%s: bucket contents changed by running queries", mb.name)
			}
			continue
		}
		s.battery(mb.name, mb.in)
	}
	// learned index state must not depend on the cache configuration: whether a
	// quantiser has been trained (and, for the deterministic binary one, the
	// threshold it learned) is the same on every instance
	type qstate struct{ name, state string }
	var states []qstate
	for _, mb := range s.members {
		d, err := mb.in.Dump()
		if err != nil {
			continue
		}
		var parts []string
		for _, b := range sl.SortedKeys(d) {
			if !strings.HasPrefix(b, "index/vector") {
				continue
			}
			if v, ok := d[b]["_binaryQuantizerThreshold"]; ok {
				if strings.HasPrefix(b, "index/vectorFlat/") {
					parts = append(parts, fmt.Sprintf("%s:binary-threshold=%x", b, v))
				} else {
					// a graph index learns from its random entry vector too: only "trained" is comparable
					parts = append(parts, b+":binary-trained")
				}
			}
			if _, ok := d[b]["_productQuantizerFlatCentroids"]; ok {
				parts = append(parts, b+":product-trained")
			}
		}
		states = append(states, qstate{mb.name, strings.Join(parts, " ")})
	}
	s.obs.Checks++
	for _, st := range states[1:] {
		if st.state != states[0].state {
			s.obs.Fail("learned-index-state-differs-between-cache-configurations", "%s has {%s}, %s has {%s} after the same history", states[0].name, states[0].state, st.name, st.state)
			break
		}
	}
	var out []seqx.Viol
	for _, v := range s.obs.Viols {
		out = append(out, seqx.Viol{Sig: v.Sig, Detail: v.Detail})
	}
	return out
}

func (s *system) Key() string     { return "" }
func (s *system) Outcome() string { return s.obs.Outcome() }
func (s *system) Checks() int64   { return s.obs.Checks }
func (s *system) Terminal() bool  { return s.terminal }
func (s *system) Close() {
	for _, mb := range s.members {
		mb.in.Close()
	}
}

func master(cfg *harness.Config, rep *harness.Report) {
	rep.Rule = "every write history up to the depth over the union of the point / filter / flat / text / graph write alphabets on a nine-index schema (without quantiser, with a learned binary quantiser, with a product quantiser trained at 3 points: each instance learns its own centroids and is compared with its own read-back reference), executed in lock-step on six instances: bbolt with unlimited, 1-byte and disabled shared cache, bbolt closed and reopened with a fresh cache manager after every batch, and memstore with unlimited and with disabled cache (successful batches only; one spec inserts 40000-byte indexed strings, which the file backend may refuse for its key size - then they are not part of the history - and which, if accepted, every instance must answer alike, incl. queries for the value, its sibling that differs in the last byte and a 33000-byte prefix). After every batch every instance answers the whole battery (reads by id, select-all, raw point store, ~100 filter queries, exact flat k-NN on two indexes, text tf-idf, graph search safety + exact regimes, graph well-formedness) and must equal the reference model, hence each other; whether a quantiser has been trained (and the binary quantiser's learned threshold) must be the same on all instances; a `queries` step between batches warms the caches inside a history; on the reopened instance the bucket dump before close, after reopen and after the queries must be identical"
	rep.Assumptions = []string{"approximate graph answers outside the exact regimes are not compared across instances (entry vector and reuse order are random)", "bbolt commit atomicity and fsync are trusted"}
	p := pool.New(pool.Options{CPUsPerWorker: 2, JobTimeout: 120 * time.Second})
	syms := symbols()
	if cfg.Replay != "" {
		var r seqx.Replay
		if err := harness.LoadReplay(cfg.Replay, &r); err != nil {
			panic(err)
		}
		seqx.ReplayOne(rep, p, r)
		return
	}
	depth := 3
	if !cfg.Quick() {
		depth = 4
	}
	var main []any
	for _, r := range syms.Refs() {
		if b, _ := json.Marshal(r); !strings.Contains(string(b), "!store-may-refuse") {
			main = append(main, r)
		}
	}
	specs := []seqx.Spec{
		{Name: "lockstep/no-quantiser", Cfg: cfgT{"none"}, Alphabet: main, Depth: depth},
		{Name: "lockstep/learned-binary-quantiser", Cfg: cfgT{"binlearned"}, Alphabet: main, Depth: depth},
		{Name: "lockstep/product-quantiser", Cfg: cfgT{"product"}, Alphabet: main, Depth: depth},
		// string values beyond the file backend's key size: refused there today (then the history does not
		// contain them), and if a backend ever accepts them every instance must answer alike
		{Name: "lockstep/no-quantiser/long-strings", Cfg: cfgT{"none"}, Alphabet: syms.Refs("ins1", "ins10(40000-byte string A) !store-may-refuse", "ins11(40000-byte string B) !store-may-refuse", "upd1(all fields)", "del1", "queries(between batches)"), Depth: 3},
	}
	seqx.Explore(cfg, rep, p, specs)
}

func main() {
	harness.Main("C08", seqx.Worker(factory), master, "model_checking")
}
