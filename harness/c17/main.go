// C17 — multi-shard fan-out finds each point exactly once and merges results
// in order.  Every history up to the depth on real in-process clusters of 1-3
// nodes (RPC over loopback) with 1-2 points per shard, every request entering
// through each node in turn, for a range of shard-placement seeds, with and
// without one shard server going down during the history.
package main

import (
	"encoding/json"
	"fmt"
	"math/rand"
	"os"
	"sort"
	"strings"
	"time"

	"github.com/google/uuid"
	"github.com/semafind/semadb/cluster"
	"github.com/semafind/semadb/models"
	cl "semaverif/harness/clusterlib"
	sl "semaverif/harness/shardlib"

	"semaverif/engine/harness"
	"semaverif/engine/pool"
	"semaverif/engine/seqx"
)

type cfgT struct {
	Nodes    int   `json:"nodes"`
	MSPC     int64 `json:"mspc"` // MaxShardPointCount
	Seed     int64 `json:"seed"` // placement seed (shard uuids)
	Down     int   `json:"down"` // node index that goes down, -1 = none (never node 0 of the entry rotation at that time)
	DownFrom int   `json:"downFrom"`
	// BreakAt: before step BreakAt-1 every cached RPC connection of every node breaks (as after
	// the peers restarted) while all servers stay up; 0 = never
	BreakAt int `json:"breakAt,omitempty"`
}

type opRef struct {
	Name string `json:"name"`
}

type system struct {
	cfg      cfgT
	maxId    int
	unloaded bool // the previous step unloaded every shard
	root     string
	nodes    []*cluster.ClusterNode
	alive    []bool
	hosts    []string
	plan     models.UserPlan
	docs     map[int]sl.Doc
	placed   map[int]string // point -> shard id (learnt from per-shard searches)
	step     int
	obs      sl.Obs
	pattern  string
}

func schema() models.IndexSchema {
	return models.IndexSchema{
		"a":    {Type: models.IndexTypeInteger},
		"flat": {Type: models.IndexTypeVectorFlat, VectorFlat: &models.IndexVectorFlatParameters{VectorSize: 2, DistanceMetric: models.DistanceEuclidean}},
	}
}

func doc(i int) sl.Doc {
	return sl.Doc{"a": int64(i % 3), "flat": []float32{float32(i), 1}, "name": fmt.Sprintf("p%d", i)}
}

func factory(raw json.RawMessage) (seqx.System, error) {
	var c cfgT
	if err := json.Unmarshal(raw, &c); err != nil {
		return nil, err
	}
	uuid.SetRand(rand.New(rand.NewSource(c.Seed)))
	s := &system{cfg: c, root: cl.TempRoot("c17"), docs: map[int]sl.Doc{}, placed: map[int]string{}}
	ports := cl.FreePorts(c.Nodes)
	var specs []cl.NodeSpec
	for i := 0; i < c.Nodes; i++ {
		sp := cl.NodeSpec{Name: string(rune('A' + i)), Port: ports[i], Dir: cl.NodeDir(s.root, string(rune('A'+i)))}
		specs = append(specs, sp)
		s.hosts = append(s.hosts, sp.Host())
	}
	for _, sp := range specs {
		n, err := cl.Start(sp, s.hosts, cl.Options{MaxShardPointCount: c.MSPC, RpcRetries: 1, RpcTimeout: 10}, c.Nodes > 1)
		if err != nil {
			return nil, err
		}
		s.nodes = append(s.nodes, n)
		s.alive = append(s.alive, true)
	}
	s.plan = models.UserPlan{Name: "p", MaxCollections: 5, MaxCollectionPointCount: 100, MaxPointSize: 1 << 16}
	col := models.Collection{UserId: "alice", Id: "col", Replicas: 1, UserPlan: s.plan, IndexSchema: schema()}
	if err := s.nodes[0].CreateCollection(col); err != nil {
		return nil, fmt.Errorf("create collection: %w", err)
	}
	return s, nil
}

func (s *system) fail(sig, format string, a ...any) []seqx.Viol {
	return []seqx.Viol{{Sig: sig, Detail: fmt.Sprintf(format, a...)}}
}

// entry picks the node a request enters through: rotating, skipping dead nodes.
func (s *system) entry(k int) *cluster.ClusterNode {
	for i := 0; i < len(s.nodes); i++ {
		j := (k + i) % len(s.nodes)
		if s.alive[j] {
			return s.nodes[j]
		}
	}
	return nil
}

func (s *system) collection(n *cluster.ClusterNode) (models.Collection, error) {
	col, err := n.GetCollection("alice", "col")
	col.UserPlan = s.plan
	return col, err
}

func (s *system) shardDown(shardId string) bool {
	owner := cluster.RendezvousHash(shardId, s.hosts, 1)[0]
	for i, h := range s.hosts {
		if h == owner {
			return !s.alive[i]
		}
	}
	return false
}

func (s *system) userNodeDown() bool {
	owner := cluster.RendezvousHash("alice", s.hosts, 1)[0]
	for i, h := range s.hosts {
		if h == owner {
			return !s.alive[i]
		}
	}
	return false
}

func (s *system) Apply(raw json.RawMessage) []seqx.Viol {
	var ref opRef
	json.Unmarshal(raw, &ref)
	if s.cfg.Down >= 0 && s.step == s.cfg.DownFrom && s.alive[s.cfg.Down] {
		s.nodes[s.cfg.Down].Close()
		s.alive[s.cfg.Down] = false
		// the RPC connections are hijacked: a graceful shutdown leaves them
		// open, so the peers must lose them for the server to be unreachable
		for i, n := range s.nodes {
			if s.alive[i] {
				n.VerifDropRPCClients()
			}
		}
	}
	if s.cfg.BreakAt > 0 && s.step >= s.cfg.BreakAt-1 {
		// every request from here on starts on stale cached connections
		for _, n := range s.nodes {
			n.VerifBreakRPCClients()
		}
	}
	defer func() { s.step++ }()
	if ref.Name == "all shards unload (idle timeout)" {
		// what the idle timer does to every loaded shard: the next request has to load its shard
		// again, whatever kind of request it is (an insert, a search - or a delete).  The harness
		// learns where the points live now, so that the next request really is the first to touch the shards.
		if !s.userNodeDown() {
			if col, err := s.collection(s.entry(s.step)); err == nil {
				s.learnPlacement(col)
			}
		}
		s.unloaded = true
		for i, nd := range s.nodes {
			if s.alive[i] {
				nd.VerifShardManager().VerifCloseAllShards()
			}
		}
		return nil
	}
	defer func() { s.unloaded = false }() // whatever this request is, it is the one that follows the unload
	n := s.entry(s.step)
	if s.userNodeDown() {
		return nil // the collection record itself is unreachable: nothing is claimed
	}
	col, err := s.collection(n)
	if err != nil {
		return s.fail("get-collection-failed", "%v", err)
	}
	var ids []int
	switch ref.Name {
	case "insert 2":
		ids = s.fresh(2)
	case "insert 3":
		ids = s.fresh(3)
	case "insert 90":
		ids = s.fresh(90)
	}
	switch {
	case strings.HasPrefix(ref.Name, "insert"):
		pts := make([]models.Point, len(ids))
		for i, id := range ids {
			pts[i] = models.Point{Id: sl.UUID(id), Data: sl.Encode(doc(id))}
		}
		failed, err := n.InsertPoints(col, pts)
		if err != nil {
			// a shard server is down: GetShardsInfo fails, nothing is inserted
			if s.cfg.Down >= 0 && !s.alive[s.cfg.Down] {
				return nil
			}
			return s.fail("insert-failed", "%v", err)
		}
		failedIdx := map[int]bool{}
		for _, fr := range failed {
			for i := fr.Start; i < fr.End; i++ {
				failedIdx[i] = true
			}
		}
		if len(failed) > 0 && !(s.cfg.Down >= 0 && !s.alive[s.cfg.Down]) {
			return s.fail("insert-range-failed-with-all-servers-up", "%+v", failed)
		}
		for i, p := range pts {
			if !failedIdx[i] {
				s.docs[sl.UUIDIndex(p.Id)] = sl.Canon(doc(sl.UUIDIndex(p.Id)))
			}
		}
	case ref.Name == "update 1 existing + 1 unknown", ref.Name == "delete 1 existing + 1 unknown", ref.Name == "delete all":
		live := s.liveIds()
		var req []int
		switch ref.Name {
		case "delete all":
			req = append(req, live...)
			if len(req) == 0 {
				return nil
			}
		default:
			if len(live) > 0 {
				req = append(req, live[len(live)/2])
			}
			req = append(req, 900) // never stored
		}
		// where do the requested points live? (needed to predict "failed" when a server is down);
		// right after an unload the placement was learned before it, so that this request loads the shards
		if !s.unloaded {
			if err := s.learnPlacement(col); err != nil {
				return s.fail("placement-probe-failed", "%v", err)
			}
		}
		anyDown := false
		for _, sid := range col.ShardIds {
			if s.shardDown(sid) {
				anyDown = true
			}
		}
		wantFailed := map[int]bool{}
		for _, id := range req {
			sid, stored := s.placed[id]
			if _, live := s.docs[id]; !live || !stored || s.shardDown(sid) {
				wantFailed[id] = true
			}
		}
		wantMsg := "not found"
		if anyDown {
			wantMsg = cluster.ErrShardUnavailable.Error()
		}
		var failed []cluster.FailedPoint
		if strings.HasPrefix(ref.Name, "update") {
			pts := make([]models.Point, len(req))
			for i, id := range req {
				pts[i] = models.Point{Id: sl.UUID(id), Data: sl.Encode(sl.Doc{"name": fmt.Sprintf("updated-%d", s.step)})}
			}
			failed, err = n.UpdatePoints(col, pts)
		} else {
			failed, err = n.DeletePoints(col, sl.UUIDs(req...))
		}
		if err != nil {
			return s.fail("update-delete-error", "%v", err)
		}
		gotFailed := map[int]bool{}
		for _, f := range failed {
			id := sl.UUIDIndex(f.Id)
			if gotFailed[id] {
				return s.fail("failed-point-listed-twice", "%v", failed)
			}
			gotFailed[id] = true
			if f.Err != wantMsg {
				return s.fail("failed-point-wrong-message", "%s: point %d reported as %q, want %q (a shard server down: %v)", ref.Name, id, f.Err, wantMsg, anyDown)
			}
		}
		if fmt.Sprint(keys(gotFailed)) != fmt.Sprint(keys(wantFailed)) {
			return s.fail("failed-point-list-wrong", "%s of %v through node %s: reported failed %v, the requested ids no shard processed are %v (placement %v, down node %d)", ref.Name, req, n.MyHostname, keys(gotFailed), keys(wantFailed), s.placed, s.cfg.Down)
		}
		for _, id := range req {
			if wantFailed[id] {
				continue
			}
			if strings.HasPrefix(ref.Name, "update") {
				d := sl.Doc{}
				for k, v := range s.docs[id] {
					d[k] = v
				}
				d["name"] = fmt.Sprintf("updated-%d", s.step)
				s.docs[id] = sl.Canon(d)
			} else {
				delete(s.docs, id)
				delete(s.placed, id)
			}
		}
	}
	return nil
}

func keys(m map[int]bool) []int {
	var k []int
	for id := range m {
		k = append(k, id)
	}
	sort.Ints(k)
	return k
}

func (s *system) fresh(n int) []int {
	var out []int
	for id := 1; len(out) < n; id++ {
		if _, ok := s.docs[id]; !ok && !contains(out, id) && id > s.maxEver() {
			out = append(out, id)
		}
	}
	s.maxId = out[len(out)-1] // handed out = used, also when the insert fails or the points are deleted later
	return out
}

// maxEver is the largest id this history ever stored (per system: a history's ids
// must not depend on what the worker process ran before, and stay below the
// "never stored" id 900).
func (s *system) maxEver() int {
	for id := range s.docs {
		if id > s.maxId {
			s.maxId = id
		}
	}
	if s.maxId >= 890 {
		panic("harness: stored ids reach the never-stored id 900")
	}
	return s.maxId
}

func contains(a []int, x int) bool {
	for _, v := range a {
		if v == x {
			return true
		}
	}
	return false
}

func (s *system) liveIds() []int {
	var ids []int
	for id := range s.docs {
		ids = append(ids, id)
	}
	sort.Ints(ids)
	return ids
}

// learnPlacement finds, for every live point, the shard that holds it by
// asking each shard separately (a one-shard view of the collection).
func (s *system) learnPlacement(col models.Collection) error {
	for _, sid := range col.ShardIds {
		if s.shardDown(sid) {
			continue
		}
		one := col
		one.ShardIds = []string{sid}
		n := s.entry(0)
		res, err := n.SearchPoints(one, models.SearchRequest{Query: sl.IdQuery(append(s.liveIds(), 900)...), Limit: 100})
		if err != nil {
			return err
		}
		for _, r := range res {
			id := sl.UUIDIndex(r.Id)
			if prev, ok := s.placed[id]; ok && prev != sid {
				return fmt.Errorf("point %d is stored in two shards (%s and %s)", id, prev, sid)
			}
			s.placed[id] = sid
		}
	}
	return nil
}

func (s *system) Check() []seqx.Viol {
	s.obs = sl.Obs{Checks: s.obs.Checks}
	if s.userNodeDown() {
		return nil
	}
	degraded := s.cfg.Down >= 0 && !s.alive[s.cfg.Down]
	for k := range s.nodes {
		if !s.alive[k] {
			continue
		}
		n := s.nodes[k]
		col, err := s.collection(n)
		if err != nil {
			return s.fail("get-collection-failed", "node %d: %v", k, err)
		}
		anyDown := false
		for _, sid := range col.ShardIds {
			if s.shardDown(sid) {
				anyDown = true
			}
		}
		if k == 0 || !degraded {
			var shardsPer []string
			for _, sid := range col.ShardIds {
				shardsPer = append(shardsPer, cluster.RendezvousHash(sid, s.hosts, 1)[0][len("127.0.0.1:"):])
			}
			s.pattern = fmt.Sprint(len(col.ShardIds), shardPattern(shardsPer))
		}
		if len(col.ShardIds) == 0 {
			continue
		}
		// every stored point is found exactly once through every node
		for id := 1; id <= 12; id++ {
			res, err := n.SearchPoints(col, models.SearchRequest{Query: sl.IdQuery(id), Select: []string{"*"}, Limit: 10})
			s.obs.Checks++
			if err != nil {
				if anyDown {
					continue // a search with a shard server down may fail as a whole
				}
				return s.fail("search-error", "node %d, point %d: %v", k, id, err)
			}
			want, live := s.docs[id]
			if live && anyDown && s.shardDown(s.placed[id]) {
				continue
			}
			switch {
			case !live && len(res) != 0:
				return s.fail("deleted-or-unknown-point-found", "node %d finds point %d (%d results) which is not stored", k, id, len(res))
			case live && len(res) != 1:
				return s.fail("stored-point-not-found-exactly-once", "node %d finds stored point %d %d times (shards %d)", k, id, len(res), len(col.ShardIds))
			case live:
				d, _ := sl.ResultDoc(res[0])
				if !sl.DocEqual(sl.Canon(d), want) {
					return s.fail("stored-point-wrong-document", "node %d point %d: %s, want %s", k, id, sl.DocString(d), sl.DocString(want))
				}
			}
		}
		if anyDown {
			continue
		}
		// filter search: limits x offsets x sorts
		flt := models.Query{Property: "a", Integer: &models.SearchIntegerOptions{Value: 0, Operator: models.OperatorGreaterOrEq}}
		matches := len(s.docs)
		limits := []int{1, 2, 100}
		if matches >= 90 {
			limits = []int{1, 2, 19, 30, 50, 100} // several full shards: limits around a page of one shard
		}
		for _, limit := range limits {
			for _, off := range []int{0, 1} {
				for _, so := range [][]models.SortOption{nil, {{Property: "a"}, {Property: "name"}}, {{Property: "a", Descending: true}, {Property: "name", Descending: true}}} {
					res, err := n.SearchPoints(col, models.SearchRequest{Query: flt, Select: []string{"*"}, Sort: so, Offset: off, Limit: limit})
					s.obs.Checks++
					desc := fmt.Sprintf("node %d filter search limit %d offset %d sort %v over %d shards", k, limit, off, so, len(col.ShardIds))
					if err != nil {
						return s.fail("search-error", "%s: %v", desc, err)
					}
					if len(res) > limit {
						return s.fail("more-than-limit", "%s: %d results", desc, len(res))
					}
					seen := map[int]bool{}
					var prev sl.Doc
					for i, r := range res {
						id := sl.UUIDIndex(r.Id)
						if seen[id] {
							return s.fail("duplicate-result", "%s: point %d twice", desc, id)
						}
						seen[id] = true
						d, _ := sl.ResultDoc(r)
						d = sl.Canon(d)
						if want, live := s.docs[id]; !live || !sl.DocEqual(d, want) {
							return s.fail("result-not-from-a-shard-answer", "%s: point %d with %s is not a stored point (%s)", desc, id, sl.DocString(d), sl.DocString(s.docs[id]))
						}
						if len(so) > 0 && i > 0 && cmpDocs(prev, d, so) > 0 {
							return s.fail("merged-results-not-sorted", "%s: %s comes before %s", desc, sl.DocString(prev), sl.DocString(d))
						}
						prev = d
					}
					if off == 0 && limit >= matches && len(res) != matches {
						return s.fail("multi-shard-search-misses-points", "%s: %d results, %d points match", desc, len(res), matches)
					}
					// every shard is full of matching points and can supply a whole page by itself:
					// whatever share of the limit each shard is asked for, the merged answer has `limit` results
					if off == 0 && int64(limit) <= s.cfg.MSPC && matches >= 3*int(s.cfg.MSPC) && len(res) != limit {
						return s.fail("multi-shard-search-returns-fewer-than-limit", "%s: %d results although each of the %d shards holds at least %d matching points", desc, len(res), len(col.ShardIds), limit)
					}
				}
			}
		}
		// ranked search: global order by hybrid score
		for _, limit := range []int{1, 3, 75} {
			res, err := n.SearchPoints(col, models.SearchRequest{Query: models.Query{Property: "flat", VectorFlat: &models.SearchVectorFlatOptions{Vector: []float32{2.2, 1}, Operator: models.OperatorNear, Limit: limit}}, Limit: 100})
			s.obs.Checks++
			if err != nil {
				return s.fail("search-error", "node %d flat search: %v", k, err)
			}
			seen := map[int]bool{}
			for i, r := range res {
				id := sl.UUIDIndex(r.Id)
				if seen[id] {
					return s.fail("duplicate-result", "node %d flat search limit %d: point %d twice", k, limit, id)
				}
				seen[id] = true
				if _, live := s.docs[id]; !live {
					return s.fail("result-not-from-a-shard-answer", "node %d flat search: point %d is not stored", k, id)
				}
				if i > 0 && r.HybridScore > res[i-1].HybridScore {
					return s.fail("merged-results-not-sorted", "node %d flat search limit %d: hybrid score %g after %g", k, limit, r.HybridScore, res[i-1].HybridScore)
				}
			}
			if limit == 75 && len(res) != len(s.docs) {
				return s.fail("multi-shard-search-misses-points", "node %d flat search with limit above the collection size: %d results, %d points stored", k, len(res), len(s.docs))
			}
		}
	}
	s.obs.Note(s.pattern, len(s.docs))
	return nil
}

func shardPattern(owners []string) string {
	// rename owners in order of first appearance: the pattern, not the ports
	m := map[string]int{}
	var out []string
	for _, o := range owners {
		if _, ok := m[o]; !ok {
			m[o] = len(m)
		}
		out = append(out, fmt.Sprint(m[o]))
	}
	return strings.Join(out, "")
}

func cmpDocs(a, b sl.Doc, so []models.SortOption) int {
	for _, s := range so {
		av, aok := sl.Lookup(a, s.Property)
		bv, bok := sl.Lookup(b, s.Property)
		switch {
		case aok && !bok:
			return -1
		case !aok && bok:
			return 1
		case !aok && !bok:
			continue
		}
		c := 0
		switch x := av.(type) {
		case int64:
			y, _ := bv.(int64)
			if x < y {
				c = -1
			} else if x > y {
				c = 1
			}
		case string:
			c = strings.Compare(x, bv.(string))
		}
		if s.Descending {
			c = -c
		}
		if c != 0 {
			return c
		}
	}
	return 0
}

func (s *system) Key() string     { return "" }
func (s *system) Outcome() string { return s.obs.Outcome() }
func (s *system) Checks() int64   { return s.obs.Checks }
func (s *system) Terminal() bool  { return false }
func (s *system) Close() {
	for i, n := range s.nodes {
		// ClusterNode.Close leaves the cached RPC connections open (a real node's process exits):
		// without this every history leaks a descriptor pair per connection, and a long-lived
		// worker of the thorough tier ran into "too many open files"
		n.VerifDropRPCClients()
		n.VerifShardManager().VerifCloseAllShards()
		if s.alive[i] {
			n.Close()
		}
	}
	os.RemoveAll(s.root)
	if fds, err := os.ReadDir("/proc/self/fd"); err == nil && len(fds) > 600 {
		pool.RequestRecycle() // belt and braces: never let leaked descriptors accumulate towards the limit
	}
}

func master(cfg *harness.Config, rep *harness.Report) {
	rep.Rule = "deployments: 1-3 real in-process nodes (RPC over loopback, RpcRetries 1) x MaxShardPointCount {1,2} x placement seeds (deterministic shard-uuid streams; the evidence lists the distinct shard->server patterns seen) x {all servers up, server k closed before step j, all servers up but every cached RPC connection broken from step j on}; every history up to the depth over {insert 2, insert 3, (one deployment with 30 points per shard: insert 90,) update 1 existing + 1 unknown, delete 1 existing + 1 unknown, delete all, all shards unload (what the idle timer does: the next request of whatever kind loads its shard again)}, each request entering through the next live node in rotation. After every request, through EVERY live node: each id is found exactly once iff stored, with its document; filter search for limit {1,2,100} x offset {0,1} x sort {none, asc, desc}: <= limit, no duplicate, every result a stored point, globally sorted, exact set when limit covers the matches, exactly `limit` results when every shard alone could fill the page; flat search globally ordered by hybrid score; update/delete failure lists = requested ids no shard processed, 'not found' iff every shard answered"
	rep.Assumptions = []string{"ids unique per collection (the API's precondition)", "the offset heuristic is not claimed exact", "when the user's own routing node is down nothing is claimed (the collection record is unreachable)", "a search with a shard server down may fail as a whole"}
	p := pool.New(pool.Options{CPUsPerWorker: 2, JobTimeout: 180 * time.Second, NetNS: true})
	if cfg.Replay != "" {
		var r seqx.Replay
		if err := harness.LoadReplay(cfg.Replay, &r); err != nil {
			panic(err)
		}
		seqx.ReplayOne(rep, p, r)
		return
	}
	alpha := []any{opRef{"insert 2"}, opRef{"insert 3"}, opRef{"update 1 existing + 1 unknown"}, opRef{"delete 1 existing + 1 unknown"}, opRef{"delete all"}, opRef{"all shards unload (idle timeout)"}}
	depth := 3
	seeds := []int64{1, 2, 3}
	if !cfg.Quick() {
		depth = 4
		seeds = []int64{1, 2, 3, 4, 5, 6, 7, 8}
	}
	var specs []seqx.Spec
	for _, nodes := range []int{1, 2, 3} {
		for _, mspc := range []int64{1, 2} {
			for _, seed := range seeds {
				if nodes == 1 && seed > 1 {
					continue
				}
				specs = append(specs, seqx.Spec{Name: fmt.Sprintf("%dnodes/mspc%d/seed%d", nodes, mspc, seed), Cfg: cfgT{Nodes: nodes, MSPC: mspc, Seed: seed, Down: -1}, Alphabet: alpha, Depth: depth})
				if nodes > 1 && seed <= 2 {
					for down := 0; down < nodes; down++ {
						for from := 1; from < depth; from++ {
							specs = append(specs, seqx.Spec{Name: fmt.Sprintf("%dnodes/mspc%d/seed%d/node%d-down-from-step%d", nodes, mspc, seed, down, from), Cfg: cfgT{Nodes: nodes, MSPC: mspc, Seed: seed, Down: down, DownFrom: from}, Alphabet: alpha, Depth: depth})
						}
					}
				}
			}
		}
	}
	// stale connections: all servers up, but from step j on every request finds the cached RPC clients broken
	for _, nodes := range []int{2, 3} {
		for from := 1; from <= depth; from++ {
			specs = append(specs, seqx.Spec{Name: fmt.Sprintf("%dnodes/mspc1/seed1/connections-break-from-step%d", nodes, from), Cfg: cfgT{Nodes: nodes, MSPC: 1, Seed: 1, Down: -1, BreakAt: from}, Alphabet: alpha, Depth: depth})
		}
	}
	// several full shards: 90 points at 30 per shard on two nodes
	specs = append(specs, seqx.Spec{Name: "2nodes/mspc30/90-points", Cfg: cfgT{Nodes: 2, MSPC: 30, Seed: 1, Down: -1}, Starts: [][]any{{opRef{"insert 90"}}}, Alphabet: []any{opRef{"delete 1 existing + 1 unknown"}, opRef{"update 1 existing + 1 unknown"}}, Depth: 1})
	rep.Set("server_names_fixed_by_network_namespace", p.NetNS())
	seqx.Explore(cfg, rep, p, specs)
}

func main() {
	harness.Main("C17", seqx.Worker(factory), master, "model_checking")
}
