// C18 — no request can crash the server; invalid input is refused without side
// effects.  Exhaustive enumeration of a bounded request grammar against the
// assembled HTTP handler chain of a real node: (a) every byte string up to a
// length over structural alphabets as body of every body-taking route, (b)
// every single-field mutation of valid base requests (JSON and MessagePack,
// v1 and v2), (c) header variants, cross-version requests, deep nesting.
package main

import (
	"bytes"
	"encoding/json"
	"fmt"
	"math"
	"os"
	"sort"
	"strings"
	"time"

	"github.com/semafind/semadb/cluster"
	"github.com/semafind/semadb/models"
	"github.com/vmihailenco/msgpack/v5"
	cl "semaverif/harness/clusterlib"

	"net/http"

	"semaverif/engine/harness"
	"semaverif/engine/pool"
)

const (
	p1 = "10000000-0000-4000-8000-000000000001"
	p2 = "10000000-0000-4000-8000-000000000002"
	p9 = "10000000-0000-4000-8000-000000000009"
)

type world struct {
	node *cluster.ClusterNode
	h    http.Handler
	root string
}

var plans = map[string]models.UserPlan{"basic": {Name: "basic", MaxCollections: 6, MaxCollectionPointCount: 50, MaxPointSize: 2000}}

func v2schema() map[string]any {
	return map[string]any{
		"vec":  map[string]any{"type": "vectorVamana", "vectorVamana": map[string]any{"vectorSize": 2, "distanceMetric": "euclidean", "searchSize": 75, "degreeBound": 64, "alpha": 1.2}},
		"flat": map[string]any{"type": "vectorFlat", "vectorFlat": map[string]any{"vectorSize": 2, "distanceMetric": "cosine"}},
		"bin":  map[string]any{"type": "vectorFlat", "vectorFlat": map[string]any{"vectorSize": 4, "distanceMetric": "hamming"}},
		"txt":  map[string]any{"type": "text", "text": map[string]any{"analyser": "standard"}},
		"s":    map[string]any{"type": "string", "string": map[string]any{"caseSensitive": false}},
		"tags": map[string]any{"type": "stringArray", "stringArray": map[string]any{"caseSensitive": true}},
		"a":    map[string]any{"type": "integer"},
		"f":    map[string]any{"type": "float"},
		"n.x":  map[string]any{"type": "integer"},
	}
}

func v2point(id string, i int) map[string]any {
	return map[string]any{"_id": id, "vec": []any{float64(i), 1.0}, "flat": []any{1.0, float64(i)}, "bin": []any{0.0, 1.0, 0.0, 1.0}, "txt": "quick fox", "s": "Ab", "tags": []any{"x", "y"}, "a": float64(i), "f": 1.5, "n": map[string]any{"x": 2.0}, "extra": map[string]any{"k": "v"}}
}

func newWorld() (*world, error) {
	root := cl.TempRoot("c18")
	spec := cl.NodeSpec{Name: "N", Port: 1, Dir: cl.NodeDir(root, "N")}
	node, err := cl.Start(spec, []string{spec.Host()}, cl.Options{MaxShardPointCount: 1000, MaxSearchLimit: 75}, false)
	if err != nil {
		return nil, err
	}
	w := &world{node: node, h: cl.Handler(node, plans), root: root}
	must := func(r cl.Resp, what string) error {
		if r.Status != 200 {
			return fmt.Errorf("%s: %d %s", what, r.Status, r.Body)
		}
		return nil
	}
	if err := must(cl.Do(w.h, cl.JSON("POST", "/v2/collections", "alice", "basic", map[string]any{"id": "colv2", "indexSchema": v2schema()})), "create colv2"); err != nil {
		return nil, err
	}
	if err := must(cl.Do(w.h, cl.JSON("POST", "/v2/collections/colv2/points", "alice", "basic", map[string]any{"points": []any{v2point(p1, 1), v2point(p2, 2)}})), "insert colv2"); err != nil {
		return nil, err
	}
	// the v1 collection belongs to another user: v1 listing only works on v1 collections
	if err := must(cl.Do(w.h, cl.JSON("POST", "/v1/collections", "bob", "basic", map[string]any{"id": "colv1", "vectorSize": 2, "distanceMetric": "euclidean"})), "create colv1"); err != nil {
		return nil, err
	}
	if err := must(cl.Do(w.h, cl.JSON("POST", "/v1/collections/colv1/points", "bob", "basic", map[string]any{"points": []any{map[string]any{"id": p1, "vector": []any{1.0, 2.0}, "metadata": map[string]any{"k": "v"}}}})), "insert colv1"); err != nil {
		return nil, err
	}
	return w, nil
}

func (w *world) close() {
	w.node.VerifShardManager().VerifCloseAllShards()
	w.node.Close()
	os.RemoveAll(w.root)
}

// digest of everything stored, through the API
func (w *world) digest() string {
	var parts []string
	for _, u := range []string{"alice", "bob"} {
		cols, err := w.node.ListCollections(u)
		if err != nil {
			parts = append(parts, "ERR "+err.Error())
			continue
		}
		sort.Slice(cols, func(i, j int) bool { return cols[i].Id < cols[j].Id })
		for _, c := range cols {
			sb, _ := json.Marshal(c.IndexSchema)
			parts = append(parts, u, c.Id, string(sb), fmt.Sprint(len(c.ShardIds)))
			c.UserPlan = plans["basic"]
			infos, err := w.node.GetShardsInfo(c)
			if err != nil {
				parts = append(parts, "ERR "+err.Error())
				continue
			}
			for _, si := range infos {
				parts = append(parts, fmt.Sprint(si.PointCount))
			}
			if len(c.ShardIds) > 0 {
				res, err := w.node.SearchPoints(c, models.SearchRequest{Query: models.Query{Property: "_id", StringArray: &models.SearchStringArrayOptions{Value: []string{p1, p2, p9}, Operator: "containsAny"}}, Select: []string{"*"}, Limit: 100})
				if err != nil {
					parts = append(parts, "ERR "+err.Error())
				}
				var docs []string
				for _, r := range res {
					b, _ := json.Marshal(r.DecodedData)
					if r.DecodedData == nil {
						var m map[string]any
						msgpack.Unmarshal(r.Point.Data, &m)
						b, _ = json.Marshal(m)
					}
					docs = append(docs, r.Id.String()+string(b))
				}
				sort.Strings(docs)
				parts = append(parts, docs...)
			}
		}
	}
	return strings.Join(parts, "|")
}

// ---------------------------------------------------------------------------

type route struct {
	Method string
	Path   string
	User   string
	Kind   string // which base request family
}

func bodyRoutes() []route {
	return []route{
		{"POST", "/v2/collections", "alice", "create2"},
		{"POST", "/v2/collections/colv2/points", "alice", "insert2"},
		{"PUT", "/v2/collections/colv2/points", "alice", "update2"},
		{"DELETE", "/v2/collections/colv2/points", "alice", "delete2"},
		{"POST", "/v2/collections/colv2/points/search", "alice", "search2"},
		{"POST", "/v1/collections", "bob", "create1"},
		{"POST", "/v1/collections/colv1/points", "bob", "insert1"},
		{"PUT", "/v1/collections/colv1/points", "bob", "update1"},
		{"DELETE", "/v1/collections/colv1/points", "bob", "delete1"},
		{"POST", "/v1/collections/colv1/points/search", "bob", "search1"},
	}
}

var jsonAlpha = []byte("{}[]\":,1-e.a\\ ")
var mpAlpha = []byte{0x80, 0x81, 0x90, 0x91, 0xa1, 0xc0, 0xc2, 0xca, 0xcb, 0xcf, 0xd3, 0xdc, 0xde, 0xff, 0x00, 0x7f}

type job struct {
	Kind   string `json:"kind"` // bytes | mutate | misc
	Route  int    `json:"route"`
	CType  string `json:"ctype"`
	Len    int    `json:"len"`
	First  int    `json:"first"` // bytes: index of the first character (the chunk)
	Base   int    `json:"base"`
	Enc    string `json:"enc"`
	Single string `json:"single,omitempty"` // replay: one request, JSON-encoded cl.Req
}

type viol struct {
	Sig    string `json:"sig"`
	Detail string `json:"detail"`
	Req    cl.Req `json:"req"`
}

type result struct {
	Requests int64            `json:"requests"`
	Classes  map[string]int64 `json:"classes"`
	Viols    []viol           `json:"viols"`
}

func (r *result) v(sig string, req cl.Req, format string, a ...any) {
	if len(r.Viols) < 12 {
		r.Viols = append(r.Viols, viol{sig, fmt.Sprintf(format, a...), req})
	}
}

type tester struct {
	w        *world
	res      *result
	before   string
	batch    []cl.Req
	accepted int // requests answered < 400 since the last digest
}

// exec sends one request. expect: "invalid" (must be 4xx, no state change),
// "valid" (must not be 4xx/5xx), "any" (must not be 5xx; 4xx means no state change)
func (t *tester) exec(req cl.Req, expect, what string) cl.Resp {
	fmt.Fprintf(os.Stderr, "@@REQ %s %s ctype=%q user=%q body=%x\n", req.Method, req.Path, req.CType, req.User, clipB(req.Body, 300))
	resp := cl.Do(t.w.h, req)
	t.res.Requests++
	class := fmt.Sprintf("%s %s %dxx %s", req.Method, routeShape(req.Path), resp.Status/100, expect)
	t.res.Classes[class]++
	desc := fmt.Sprintf("%s %s (%s) content-type %q body %s -> %d %s", req.Method, req.Path, what, req.CType, clipS(req.Body, 400), resp.Status, clipS(resp.Body, 200))
	switch {
	case resp.Status >= 500:
		t.res.v("server-error:"+routeShape(req.Path)+":"+errClass(resp.Body), req, "%s", desc)
	case expect == "invalid" && resp.Status < 400:
		t.res.v("invalid-request-accepted:"+what, req, "%s", desc)
	case expect == "valid" && resp.Status >= 400:
		t.res.v("valid-request-refused:"+what, req, "%s", desc)
	}
	if resp.Status >= 400 {
		t.batch = append(t.batch, req)
	} else {
		t.accepted++
	}
	return resp
}

// sideEffects verifies that the refused requests since the last call changed
// nothing.  Accepted requests may legitimately have changed the state of this
// world in between, so a difference is only believed after replaying just the
// refused requests on a fresh world.
func (t *tester) sideEffects() {
	if len(t.batch) == 0 {
		t.before = t.w.digest()
		t.accepted = 0
		return
	}
	now := t.w.digest()
	if now != t.before && t.accepted == 0 {
		// nothing was accepted since the last digest: the difference is the refused requests' doing
		r := t.batch[len(t.batch)-1]
		t.res.v("refused-request-changed-stored-data", r, "%s %s body %s was refused (as were all %d requests since the last look) but the stored collections / points differ afterwards:\n before: %s\n after:  %s", r.Method, r.Path, clipS(r.Body, 300), len(t.batch), clipS([]byte(t.before), 600), clipS([]byte(now), 600))
	} else if now != t.before {
		if w2, err := newWorld(); err == nil {
			d := w2.digest()
			for _, r := range t.batch {
				resp := cl.Do(w2.h, r)
				if resp.Status < 400 {
					d = w2.digest() // accepted on the fresh world: its effects are legitimate
					continue
				}
				if d2 := w2.digest(); d2 != d {
					t.res.v("refused-request-changed-stored-data", r, "%s %s body %s was answered with status %d but the stored collections / points differ afterwards", r.Method, r.Path, clipS(r.Body, 300), resp.Status)
					break
				}
			}
			w2.close()
		}
	}
	t.before = now
	t.batch = t.batch[:0]
	t.accepted = 0
}

func routeShape(p string) string {
	p = strings.Replace(p, "colv2", "{id}", 1)
	p = strings.Replace(p, "colv1", "{id}", 1)
	return p
}

func errClass(body []byte) string {
	var m map[string]string
	if json.Unmarshal(body, &m) == nil {
		e := m["error"]
		if i := strings.LastIndex(e, ": "); i >= 0 {
			e = e[i+2:]
		}
		if len(e) > 60 {
			e = e[:60]
		}
		if e == "" {
			return "recovered-panic"
		}
		return e
	}
	if len(body) == 0 {
		return "recovered-panic"
	}
	return "?"
}

func clipB(b []byte, n int) []byte {
	if len(b) > n {
		return b[:n]
	}
	return b
}

func clipS(b []byte, n int) string {
	s := string(b)
	if len(s) > n {
		return fmt.Sprintf("%q…(%d bytes)", s[:n], len(s))
	}
	return fmt.Sprintf("%q", s)
}

// ---- (b) base requests and mutations ----

type base struct {
	Name  string
	Route route
	Body  map[string]any
	// Effect: the valid base request changes state (it is sent on a fresh world only once)
	Mutating bool
}

func bases() []base {
	w := 0.5
	_ = w
	return []base{
		{"create collection", bodyRoutes()[0], map[string]any{"id": "newcol", "indexSchema": v2schema()}, true},
		{"insert point", bodyRoutes()[1], map[string]any{"points": []any{v2point(p9, 9)}}, true},
		{"update point", bodyRoutes()[2], map[string]any{"points": []any{map[string]any{"_id": p1, "a": 5.0, "vec": []any{3.0, 3.0}, "txt": "lazy dog"}}}, true},
		{"delete point", bodyRoutes()[3], map[string]any{"ids": []any{p2}}, true},
		{"search hybrid", bodyRoutes()[4], map[string]any{
			"query": map[string]any{"property": "_or", "_or": []any{
				map[string]any{"property": "vec", "vectorVamana": map[string]any{"vector": []any{1.0, 1.0}, "operator": "near", "searchSize": 75, "limit": 10, "weight": 0.5,
					"filter": map[string]any{"property": "_and", "_and": []any{
						map[string]any{"property": "a", "integer": map[string]any{"value": 0, "operator": "inRange", "endValue": 5}},
						map[string]any{"property": "s", "string": map[string]any{"value": "a", "operator": "startsWith"}},
					}}}},
				map[string]any{"property": "txt", "text": map[string]any{"value": "quick", "operator": "containsAny", "limit": 10, "weight": 2.0}},
				map[string]any{"property": "flat", "vectorFlat": map[string]any{"vector": []any{1.0, 0.0}, "operator": "near", "limit": 5}},
				map[string]any{"property": "tags", "stringArray": map[string]any{"value": []any{"x"}, "operator": "containsAll"}},
				map[string]any{"property": "f", "float": map[string]any{"value": 1.0, "operator": "greaterThan"}},
				map[string]any{"property": "_id", "string": map[string]any{"value": p1, "operator": "equals"}},
			}},
			"select": []any{"a", "n.x", "*"}, "sort": []any{map[string]any{"property": "a", "descending": true}}, "offset": 0, "limit": 10}, false},
		{"search binary flat", bodyRoutes()[4], map[string]any{"query": map[string]any{"property": "bin", "vectorFlat": map[string]any{"vector": []any{1.0, 1.0, 0.0, 0.0}, "operator": "near", "limit": 3}}, "limit": 5}, false},
		{"v1 create collection", bodyRoutes()[5], map[string]any{"id": "newv1", "vectorSize": 2, "distanceMetric": "cosine"}, true},
		{"v1 insert point", bodyRoutes()[6], map[string]any{"points": []any{map[string]any{"id": p9, "vector": []any{0.5, 0.5}, "metadata": map[string]any{"k": 1.0}}}}, true},
		{"v1 update point", bodyRoutes()[7], map[string]any{"points": []any{map[string]any{"id": p1, "vector": []any{2.0, 2.0}, "metadata": map[string]any{"k": "w"}}}}, true},
		{"v1 delete point", bodyRoutes()[8], map[string]any{"ids": []any{p1}}, true},
		{"v1 search", bodyRoutes()[9], map[string]any{"vector": []any{1.0, 1.0}, "limit": 5}, false},
	}
}

type raw struct{ s string }

// replacement values: typed, boundary, structural
func replacements() []any {
	return []any{nil, true, 0.0, -1.0, 1.0, raw{"1e400"}, raw{"9223372036854775808"}, raw{"-9223372036854775809"}, raw{"9223372036854775807"}, raw{"-9223372036854775808"}, "", "x", "_id", "a.b", []any{}, []any{[]any{}}, map[string]any{}, []any{"x", 1.0}, 4096.0, 4097.0, 76.0, 101.0, 10001.0, 24.0,
		"nope", "_and", "near", "00000000-0000-0000-0000-00000000000", p1, math.MaxFloat64, -0.0, 1e-320, "a..b", strings.Repeat("z", 3000)}
}

type pathElem struct {
	key string
	idx int
}

func walk(v any, path []pathElem, visit func(path []pathElem, v any)) {
	visit(path, v)
	switch x := v.(type) {
	case map[string]any:
		var keys []string
		for k := range x {
			keys = append(keys, k)
		}
		sort.Strings(keys)
		for _, k := range keys {
			walk(x[k], append(append([]pathElem{}, path...), pathElem{key: k, idx: -1}), visit)
		}
	case []any:
		for i, e := range x {
			walk(e, append(append([]pathElem{}, path...), pathElem{idx: i}), visit)
		}
	}
}

func clone(v any) any {
	switch x := v.(type) {
	case map[string]any:
		m := map[string]any{}
		for k, e := range x {
			m[k] = clone(e)
		}
		return m
	case []any:
		a := make([]any, len(x))
		for i, e := range x {
			a[i] = clone(e)
		}
		return a
	}
	return v
}

type del struct{}

func get(root any, path []pathElem) any {
	cur := root
	for _, e := range path {
		switch x := cur.(type) {
		case map[string]any:
			cur = x[e.key]
		case []any:
			cur = x[e.idx]
		}
	}
	return cur
}

// set returns a copy of root with the node at path replaced (or deleted).
func set(root any, path []pathElem, val any) any {
	if len(path) == 0 {
		return val
	}
	switch x := root.(type) {
	case map[string]any:
		m := map[string]any{}
		for k, e := range x {
			m[k] = e
		}
		if len(path) == 1 {
			if _, isDel := val.(del); isDel {
				delete(m, path[0].key)
				return m
			}
		}
		m[path[0].key] = set(x[path[0].key], path[1:], val)
		return m
	case []any:
		a := append([]any{}, x...)
		if len(path) == 1 {
			if _, isDel := val.(del); isDel {
				return append(a[:path[0].idx], a[path[0].idx+1:]...)
			}
		}
		a[path[0].idx] = set(x[path[0].idx], path[1:], val)
		return a
	}
	return root
}

// toJSON renders with raw number tokens.
func toJSON(v any) []byte {
	var buf bytes.Buffer
	var enc func(v any)
	enc = func(v any) {
		switch x := v.(type) {
		case raw:
			buf.WriteString(x.s)
		case map[string]any:
			buf.WriteByte('{')
			var keys []string
			for k := range x {
				keys = append(keys, k)
			}
			sort.Strings(keys)
			for i, k := range keys {
				if i > 0 {
					buf.WriteByte(',')
				}
				kb, _ := json.Marshal(k)
				buf.Write(kb)
				buf.WriteByte(':')
				enc(x[k])
			}
			buf.WriteByte('}')
		case []any:
			buf.WriteByte('[')
			for i, e := range x {
				if i > 0 {
					buf.WriteByte(',')
				}
				enc(e)
			}
			buf.WriteByte(']')
		case float64:
			if math.IsInf(x, 0) || math.IsNaN(x) {
				buf.WriteString("null")
			} else {
				b, _ := json.Marshal(x)
				buf.Write(b)
			}
		default:
			b, _ := json.Marshal(x)
			buf.Write(b)
		}
	}
	enc(v)
	return buf.Bytes()
}

func toMsgpack(v any) ([]byte, bool) {
	ok := true
	var conv func(v any) any
	vecKeys := map[string]bool{"vec": true, "flat": true, "bin": true, "vector": true}
	conv = func(v any) any {
		switch x := v.(type) {
		case raw:
			switch x.s {
			case "1e400":
				return math.Inf(1)
			case "9223372036854775808":
				return uint64(1 << 63)
			case "9223372036854775807":
				return int64(math.MaxInt64)
			case "-9223372036854775808":
				return int64(math.MinInt64)
			default:
				ok = false
				return nil
			}
		case map[string]any:
			m := map[string]any{}
			for k, e := range x {
				if arr, ok := e.([]any); ok && vecKeys[k] {
					// vector elements are floats on the wire, also when integral
					a := make([]any, len(arr))
					for i, el := range arr {
						if f, ok := el.(float64); ok && math.Abs(f) < 1e30 {
							a[i] = float32(f)
						} else {
							a[i] = conv(el)
						}
					}
					m[k] = a
					continue
				}
				m[k] = conv(e)
			}
			return m
		case []any:
			a := make([]any, len(x))
			for i, e := range x {
				a[i] = conv(e)
			}
			return a
		case float64:
			// typed wire format: integral numbers travel as ints (accepted for
			// every numeric field), fractions as float32 (what vectors and
			// weights are declared as)
			if x == math.Trunc(x) && math.Abs(x) < 1e15 {
				return int64(x)
			}
			if math.Abs(x) < 1e30 && math.Abs(x) > 1e-30 {
				return float32(x)
			}
			return x
		}
		return v
	}
	c := conv(v)
	if !ok {
		return nil, false
	}
	b, err := msgpack.Marshal(c)
	return b, err == nil
}

func pathString(p []pathElem) string {
	var sb strings.Builder
	for _, e := range p {
		if e.idx >= 0 {
			fmt.Fprintf(&sb, "[%d]", e.idx)
		} else {
			sb.WriteString("." + e.key)
		}
	}
	if sb.Len() == 0 {
		return "(root)"
	}
	return sb.String()
}

// mustReject: mutations whose result certainly violates the documented schema.
func mustReject(b base, path string, val any, orig any, enc string) bool {
	_, isDel := val.(del)
	if val == nil {
		return false // JSON null leaves the field at its zero value: whether that is valid depends on the field
	}
	if fmt.Sprint(val) == fmt.Sprint(orig) {
		return false // replaced by itself
	}
	v2 := !strings.HasPrefix(b.Name, "v1")
	isNum := func() (float64, bool) {
		if r, ok := val.(raw); ok {
			if strings.HasPrefix(r.s, "-") {
				return -9.3e18, true
			}
			return 9.3e18, r.s != "1e400" || enc == "msgpack"
		}
		f, ok := val.(float64)
		return f, ok
	}
	switch {
	case strings.HasSuffix(path, ".vector") || strings.HasSuffix(path, ".vec") || strings.HasSuffix(path, ".flat") || strings.HasSuffix(path, ".bin"):
		// a vector replaced by a non-array / array of the wrong length or type
		if isDel {
			return strings.HasSuffix(path, ".vector") && !strings.Contains(path, "points") // query vectors are required
		}
		return true
	case strings.HasSuffix(path, "vector[0]") || strings.HasSuffix(path, "vec[0]") || strings.HasSuffix(path, "flat[0]") || strings.HasSuffix(path, "bin[0]"):
		if isDel {
			return true // one element short: dimension mismatch
		}
		_, ok := isNum()
		return !ok // wrong element type
	case strings.Contains(path, "points") && (strings.HasSuffix(path, ".a") || strings.HasSuffix(path, ".n.x")):
		// an integer-indexed property given as an unsigned 64-bit number beyond int64 (only the typed wire
		// format can say that): it does not fit the index's value type and must be refused, not wrapped
		if r, ok := val.(raw); ok && r.s == "9223372036854775808" && enc == "msgpack" {
			return true
		}
		return false
	case strings.HasSuffix(path, ".operator"):
		return true // every replacement is an unknown operator
	case path == ".limit":
		f, ok := isNum()
		return v2 && !isDel && (!ok || f < 1 || f > 100 || f != math.Trunc(f))
	case path == ".offset":
		f, ok := isNum()
		return !isDel && (!ok || f < 0 || f != math.Trunc(f))
	case strings.HasSuffix(path, "._id") || (strings.HasSuffix(path, ".id") && strings.Contains(path, "points")):
		if isDel {
			return strings.Contains(b.Name, "update")
		}
		return v2 && val != p1 // anything but a uuid
	case strings.HasSuffix(path, ".ids[0]"):
		return val != p1 && !isDel
	case path == ".points" || path == ".ids" || path == ".query":
		if arr, ok := val.([]any); ok && path != ".query" && len(arr) > 0 {
			return true // wrong element types
		}
		return true
	}
	return false
}

func (t *tester) mutate(b base, enc string) {
	ctype := "application/json"
	if enc == "msgpack" {
		ctype = "application/msgpack"
	}
	send := func(body any, expect, what string) {
		var payload []byte
		if enc == "msgpack" {
			p, ok := toMsgpack(body)
			if !ok {
				return
			}
			payload = p
		} else {
			payload = toJSON(body)
		}
		t.exec(cl.Req{Method: b.Route.Method, Path: b.Route.Path, User: b.Route.User, Plan: "basic", CType: ctype, Body: payload}, expect, what)
	}
	// the unmodified base request is valid
	send(b.Body, "valid", b.Name+": unmodified")
	t.sideEffects()
	reps := append([]any{del{}}, replacements()...)
	var paths [][]pathElem
	walk(b.Body, nil, func(p []pathElem, v any) { paths = append(paths, p) })
	for _, p := range paths {
		ps := pathString(p)
		orig := get(b.Body, p)
		for _, r := range reps {
			mut := set(clone(b.Body), p, r)
			expect := "any"
			if mustReject(b, ps, r, orig, enc) {
				expect = "invalid"
			}
			rs := fmt.Sprintf("%v", r)
			if len(rs) > 24 {
				rs = rs[:24] + "…"
			}
			if _, ok := r.(del); ok {
				rs = "<deleted>"
			}
			what := fmt.Sprintf("%s: %s := %s", b.Name, ps, rs)
			if expect == "invalid" {
				what = fmt.Sprintf("%s: %s", b.Name, ps)
			}
			send(mut, expect, what)
			if b.Mutating || t.res.Requests%64 == 0 {
				t.sideEffectsIfRefused()
			}
		}
	}
	// duplicate keys and size limits
	if enc == "json" {
		body := toJSON(b.Body)
		dup := append([]byte(`{"limit":1,"points":[],"ids":[],`), body[1:]...)
		t.exec(cl.Req{Method: b.Route.Method, Path: b.Route.Path, User: b.Route.User, Plan: "basic", CType: ctype, Body: dup}, "any", b.Name+": duplicate keys")
	}
}

// sideEffectsIfRefused keeps the invariant "a refused request changed nothing":
// after an accepted mutating request the reference digest moves on.
func (t *tester) sideEffectsIfRefused() {
	t.sideEffects()
}

// ---------------------------------------------------------------------------

func worker(rawJob json.RawMessage) (json.RawMessage, error) {
	var j job
	if err := json.Unmarshal(rawJob, &j); err != nil {
		return nil, err
	}
	res := &result{Classes: map[string]int64{}}
	w, err := newWorld()
	if err != nil {
		return nil, err
	}
	defer w.close()
	t := &tester{w: w, res: res, before: w.digest()}
	switch j.Kind {
	case "single":
		var r cl.Req
		json.Unmarshal([]byte(j.Single), &r)
		t.exec(r, "any", "replay")
		t.sideEffects()
	case "bytes":
		rt := bodyRoutes()[j.Route]
		alpha := jsonAlpha
		if j.CType == "application/msgpack" {
			alpha = mpAlpha
		}
		body := make([]byte, j.Len)
		var rec func(pos int)
		rec = func(pos int) {
			if pos == j.Len {
				// almost all of these violate the schema; the few the decoders accept
				// (e.g. MessagePack's positional array form of a struct) are requests
				// in their own right, so only "never 5xx, 4xx => no side effect" is demanded
				t.exec(cl.Req{Method: rt.Method, Path: rt.Path, User: rt.User, Plan: "basic", CType: j.CType, Body: append([]byte{}, body...)}, "any", "short body")
				if res.Requests%4096 == 0 {
					t.sideEffects()
				}
				return
			}
			for _, c := range alpha {
				body[pos] = c
				rec(pos + 1)
			}
		}
		if j.Len == 0 {
			rec(0)
		} else {
			body[0] = alpha[j.First]
			rec(1)
		}
		t.sideEffects()
	case "mutate":
		b := bases()[j.Base]
		t.mutate(b, j.Enc)
		t.sideEffects()
	case "misc":
		t.misc(j.Base)
		t.sideEffects()
	}
	return json.Marshal(res)
}

func (t *tester) misc(which int) {
	search2 := bases()[4]
	switch which {
	case 0: // header and content-type variants on every route
		for _, rt := range bodyRoutes() {
			for _, b := range bases() {
				if b.Route.Path != rt.Path || b.Route.Method != rt.Method {
					continue
				}
				body := toJSON(b.Body)
				for _, v := range []struct {
					user, plan, ctype, expect string
				}{{"", "basic", "application/json", "invalid"}, {rt.User, "", "application/json", "invalid"}, {rt.User, "nosuchplan", "application/json", "invalid"}, {rt.User, "basic", "", "invalid"}, {rt.User, "basic", "text/plain", "invalid"}, {rt.User, "basic", "application/json; charset=utf-8", "any"}, {"mallory", "basic", "application/json", "any"}} {
					t.exec(cl.Req{Method: rt.Method, Path: rt.Path, User: v.user, Plan: v.plan, CType: v.ctype, Body: body}, v.expect, "header variant")
				}
			}
		}
	case 1: // routes without a body, unknown routes, cross-version
		for _, r := range []cl.Req{
			cl.JSON("GET", "/v2/collections", "alice", "basic", nil), cl.JSON("GET", "/v2/collections/colv2", "alice", "basic", nil),
			cl.JSON("GET", "/v1/collections", "bob", "basic", nil), cl.JSON("GET", "/v1/collections/colv1", "bob", "basic", nil),
			cl.JSON("GET", "/v2/ping", "alice", "basic", nil), cl.JSON("GET", "/v1/ping", "alice", "basic", nil),
		} {
			t.exec(r, "valid", "read route "+r.Path)
		}
		for _, r := range []cl.Req{
			cl.JSON("GET", "/v2/collections/nosuch", "alice", "basic", nil), cl.JSON("GET", "/v2/collections/ab", "alice", "basic", nil), cl.JSON("GET", "/v2/collections/"+strings.Repeat("a", 25), "alice", "basic", nil),
			cl.JSON("DELETE", "/v2/collections/nosuch", "alice", "basic", nil), cl.JSON("DELETE", "/v1/collections/nosuch", "bob", "basic", nil),
			cl.JSON("PATCH", "/v2/collections", "alice", "basic", nil), cl.JSON("GET", "/v3/collections", "alice", "basic", nil), cl.JSON("GET", "/", "alice", "basic", nil),
			cl.JSON("GET", "/v2/collections/colv2/points", "alice", "basic", nil), cl.JSON("POST", "/v2/collections/colv2", "alice", "basic", nil),
			cl.JSON("GET", "/v2/collections/col%2fv2", "alice", "basic", nil),
		} {
			t.exec(r, "invalid", "bad route "+r.Method+" "+r.Path)
		}
		// cross-version: every v1 route on a collection created through v2, and vice versa.
		// These are well-formed requests: whatever the answer, it must not be a 5xx.
		cl.Do(t.w.h, cl.JSON("POST", "/v1/collections", "alice", "basic", map[string]any{"id": "alicev1", "vectorSize": 2, "distanceMetric": "euclidean"}))
		t.before = t.w.digest()
		for _, r := range []cl.Req{
			cl.JSON("GET", "/v1/collections", "alice", "basic", nil),
			cl.JSON("GET", "/v1/collections/colv2", "alice", "basic", nil),
			cl.JSON("POST", "/v1/collections/colv2/points", "alice", "basic", map[string]any{"points": []any{map[string]any{"id": p9, "vector": []any{0.5, 0.5}}}}),
			cl.JSON("PUT", "/v1/collections/colv2/points", "alice", "basic", map[string]any{"points": []any{map[string]any{"id": p1, "vector": []any{0.5, 0.5}}}}),
			cl.JSON("POST", "/v1/collections/colv2/points/search", "alice", "basic", map[string]any{"vector": []any{1.0, 1.0}, "limit": 5}),
			cl.JSON("DELETE", "/v1/collections/colv2/points", "alice", "basic", map[string]any{"ids": []any{p9}}),
			cl.JSON("GET", "/v2/collections", "bob", "basic", nil),
			cl.JSON("GET", "/v2/collections/colv1", "bob", "basic", nil),
			cl.JSON("POST", "/v2/collections/colv1/points/search", "bob", "basic", map[string]any{"query": map[string]any{"property": "vector", "vectorVamana": map[string]any{"vector": []any{1.0, 1.0}, "operator": "near", "searchSize": 75, "limit": 5}}, "limit": 5}),
			cl.JSON("POST", "/v2/collections/colv1/points", "bob", "basic", map[string]any{"points": []any{map[string]any{"_id": p9, "vector": []any{0.5, 0.5}}}}),
		} {
			t.exec(r, "any", "cross-version "+r.Method+" "+r.Path)
			t.sideEffectsIfRefused()
		}
		// a v1-shaped collection created through v2 with a smaller search size than
		// v1's own default: every limit of v1's documented range must still be served
		cl.Do(t.w.h, cl.JSON("POST", "/v2/collections", "carol", "basic", map[string]any{"id": "v1shape", "indexSchema": map[string]any{"vector": map[string]any{"type": "vectorVamana", "vectorVamana": map[string]any{"vectorSize": 2, "distanceMetric": "euclidean", "searchSize": 25, "degreeBound": 32, "alpha": 1.2}}}}))
		var v1pts []any
		for i := 0; i < 40; i++ {
			v1pts = append(v1pts, map[string]any{"vector": []any{float64(i % 7), float64(i / 7)}})
		}
		t.exec(cl.JSON("POST", "/v1/collections/v1shape/points", "carol", "basic", map[string]any{"points": v1pts}), "any", "v1 insert into a v1-shaped v2 collection")
		t.before = t.w.digest()
		for _, limit := range []int{1, 10, 24, 25, 26, 50, 75} {
			t.exec(cl.JSON("POST", "/v1/collections/v1shape/points/search", "carol", "basic", map[string]any{"vector": []any{1.0, 1.0}, "limit": limit}), "valid", fmt.Sprintf("v1 search limit %d on a v1-shaped v2 collection with searchSize 25", limit))
		}
		t.exec(cl.JSON("POST", "/v1/collections/v1shape/points/search", "carol", "basic", map[string]any{"vector": []any{1.0, 1.0}, "limit": 76}), "invalid", "v1 search limit 76")
		t.sideEffectsIfRefused()
	case 2: // quota and size limits
		var many []any
		for i := 0; i < 10001; i++ {
			many = append(many, map[string]any{"a": float64(i)})
		}
		t.exec(cl.JSON("POST", "/v2/collections/colv2/points", "alice", "basic", map[string]any{"points": many}), "invalid", "10001 points")
		t.exec(cl.JSON("POST", "/v2/collections/colv2/points", "alice", "basic", map[string]any{"points": many[:60]}), "invalid", "over the plan's point quota")
		// the same refusal on a collection that has no shard yet: nothing may be created for a refused insert
		t.exec(cl.JSON("POST", "/v2/collections", "bob", "basic", map[string]any{"id": "fresh", "indexSchema": map[string]any{}}), "valid", "a collection without any shard")
		t.sideEffects()
		t.exec(cl.JSON("POST", "/v2/collections/fresh/points", "bob", "basic", map[string]any{"points": many[:60]}), "invalid", "over the plan's point quota, first insert into a fresh collection")
		t.sideEffects()
		var ids []any
		for i := 0; i < 101; i++ {
			ids = append(ids, p1)
		}
		t.exec(cl.JSON("DELETE", "/v2/collections/colv2/points", "alice", "basic", map[string]any{"ids": ids}), "invalid", "101 ids")
		big := v2point(p9, 9)
		big["pad"] = strings.Repeat("x", 2001)
		t.exec(cl.JSON("POST", "/v2/collections/colv2/points", "alice", "basic", map[string]any{"points": []any{big}}), "invalid", "point over MaxPointSize")
		t.exec(cl.JSON("PUT", "/v2/collections/colv2/points", "alice", "basic", map[string]any{"points": []any{map[string]any{"_id": p1, "pad": strings.Repeat("x", 1900)}}}), "invalid", "merged point over MaxPointSize")
		t.exec(cl.JSON("POST", "/v2/collections/colv2/points", "alice", "basic", map[string]any{"points": []any{v2point(p9, 9), v2point(p9, 9)}}), "any", "duplicate _id in batch")
		t.exec(cl.JSON("POST", "/v2/collections/colv2/points", "alice", "basic", map[string]any{"points": []any{v2point(p1, 1)}}), "any", "existing _id")
		var sorts []any
		for i := 0; i < 11; i++ {
			sorts = append(sorts, map[string]any{"property": "a"})
		}
		s := clone(search2.Body).(map[string]any)
		s["sort"] = sorts
		t.exec(cl.JSON("POST", "/v2/collections/colv2/points/search", "alice", "basic", s), "invalid", "11 sort keys")
		for k := 0; k < 8; k++ {
			t.exec(cl.JSON("POST", "/v2/collections", "alice", "basic", map[string]any{"id": fmt.Sprintf("quota%d", k), "indexSchema": map[string]any{}}), "any", "collection quota")
		}
		// vectors of length 1, 4096 and 4097
		for _, n := range []int{1, 4096, 4097} {
			vec := make([]any, n)
			for i := range vec {
				vec[i] = 0.25
			}
			expect := "invalid"
			t.exec(cl.JSON("POST", "/v2/collections/colv2/points/search", "alice", "basic", map[string]any{"query": map[string]any{"property": "vec", "vectorVamana": map[string]any{"vector": vec, "operator": "near", "searchSize": 75, "limit": 5}}, "limit": 5}), expect, fmt.Sprintf("query vector of length %d on a 2-d index", n))
			t.exec(cl.JSON("POST", "/v2/collections/colv2/points", "alice", "basic", map[string]any{"points": []any{map[string]any{"_id": p9, "vec": vec}}}), expect, fmt.Sprintf("stored vector of length %d on a 2-d index", n))
			t.exec(cl.JSON("POST", "/v2/collections", "alice", "basic", map[string]any{"id": fmt.Sprintf("dim%d", n), "indexSchema": map[string]any{"v": map[string]any{"type": "vectorFlat", "vectorFlat": map[string]any{"vectorSize": n, "distanceMetric": "euclidean"}}}}), map[bool]string{true: "invalid", false: "any"}[n > 4096], fmt.Sprintf("index of dimension %d", n))
		}
		// the haversine metric needs two components, whatever other (optional) parameter blocks the index entry carries
		for _, qz := range []map[string]any{nil, {"type": "none"}, {"type": "binary", "binary": map[string]any{"threshold": 0.5, "distanceMetric": "hamming"}}} {
			for _, kind := range []string{"vectorFlat", "vectorVamana"} {
				params := map[string]any{"vectorSize": 3, "distanceMetric": "haversine"}
				if kind == "vectorVamana" {
					params = map[string]any{"vectorSize": 3, "distanceMetric": "haversine", "searchSize": 75, "degreeBound": 64, "alpha": 1.2}
				}
				if qz != nil {
					params["quantizer"] = qz
				}
				t.exec(cl.JSON("POST", "/v2/collections", "bob", "basic", map[string]any{"id": "geo3", "indexSchema": map[string]any{"g": map[string]any{"type": kind, kind: params}}}), "invalid", fmt.Sprintf("%s index with the haversine metric and vector size 3 (quantizer block %v)", kind, qz))
			}
		}
		// a composite query that carries BOTH sub-query lists: the list named by its property is the one
		// that is executed, so that is the one whose members must be checked against the index schema
		{
			okLeaf := map[string]any{"property": "a", "integer": map[string]any{"value": 1, "operator": "equals"}}
			bad := []struct {
				what string
				q    map[string]any
			}{
				{"vector of the wrong length", map[string]any{"property": "vec", "vectorVamana": map[string]any{"vector": []any{1.0}, "operator": "near", "searchSize": 75, "limit": 5}}},
				{"flat vector of the wrong length", map[string]any{"property": "flat", "vectorFlat": map[string]any{"vector": []any{1.0, 2.0, 3.0}, "operator": "near", "limit": 5}}},
				{"unknown property", map[string]any{"property": "nosuch", "integer": map[string]any{"value": 1, "operator": "equals"}}},
				{"wrong option type for the property", map[string]any{"property": "a", "string": map[string]any{"value": "x", "operator": "equals"}}},
			}
			for _, b := range bad {
				for _, comp := range [][2]string{{"_or", "_and"}, {"_and", "_or"}} {
					q := map[string]any{"property": comp[0], comp[0]: []any{okLeaf, b.q}, comp[1]: []any{okLeaf}}
					t.exec(cl.JSON("POST", "/v2/collections/colv2/points/search", "alice", "basic", map[string]any{"query": q, "limit": 5}), "invalid", fmt.Sprintf("%s with a decoy %s list and a member with %s", comp[0], comp[1], b.what))
					// the same composite as the pre-filter of a vector query
					vq := map[string]any{"property": "vec", "vectorVamana": map[string]any{"vector": []any{1.0, 1.0}, "operator": "near", "searchSize": 75, "limit": 5, "filter": q}}
					t.exec(cl.JSON("POST", "/v2/collections/colv2/points/search", "alice", "basic", map[string]any{"query": vq, "limit": 5}), "invalid", fmt.Sprintf("vector query filtered by %s with a decoy %s list and a member with %s", comp[0], comp[1], b.what))
				}
			}
		}
		// a query that carries the options block of its property's index type PLUS a well-formed
		// superfluous block of another type: the filter that is executed is the one inside the
		// property's own block, so that is the one that must be checked against the schema
		{
			bad := []struct {
				what string
				q    map[string]any
			}{
				{"vector of the wrong length", map[string]any{"property": "vec", "vectorVamana": map[string]any{"vector": []any{1.0}, "operator": "near", "searchSize": 75, "limit": 5}}},
				{"unknown property", map[string]any{"property": "nosuch", "integer": map[string]any{"value": 1, "operator": "equals"}}},
				{"wrong option type for the property", map[string]any{"property": "a", "string": map[string]any{"value": "x", "operator": "equals"}}},
			}
			okFilter := map[string]any{"property": "a", "integer": map[string]any{"value": 1, "operator": "equals"}}
			for _, b := range bad {
				decoyFlat := map[string]any{"vector": []any{1.0, 1.0}, "operator": "near", "limit": 5, "filter": okFilter}
				q := map[string]any{"property": "vec", "vectorFlat": decoyFlat, "vectorVamana": map[string]any{"vector": []any{1.0, 1.0}, "operator": "near", "searchSize": 75, "limit": 5, "filter": b.q}}
				t.exec(cl.JSON("POST", "/v2/collections/colv2/points/search", "alice", "basic", map[string]any{"query": q, "limit": 5}), "invalid", fmt.Sprintf("graph query with a superfluous vectorFlat block whose own filter has a member with %s", b.what))
				decoyVam := map[string]any{"vector": []any{1.0, 1.0}, "operator": "near", "searchSize": 75, "limit": 5, "filter": okFilter}
				q2 := map[string]any{"property": "flat", "vectorVamana": decoyVam, "vectorFlat": map[string]any{"vector": []any{1.0, 1.0}, "operator": "near", "limit": 5, "filter": b.q}}
				t.exec(cl.JSON("POST", "/v2/collections/colv2/points/search", "alice", "basic", map[string]any{"query": q2, "limit": 5}), "invalid", fmt.Sprintf("flat query with a superfluous vectorVamana block whose own filter has a member with %s", b.what))
			}
		}
		// an index entry that carries the parameter block of its own type plus a
		// superfluous block of another type with a different vector size: if the
		// collection is accepted, the dimension in force is the one of its type
		vam := func(n int) map[string]any {
			return map[string]any{"vectorSize": n, "distanceMetric": "euclidean", "searchSize": 75, "degreeBound": 64, "alpha": 1.2}
		}
		flat := func(n int) map[string]any { return map[string]any{"vectorSize": n, "distanceMetric": "euclidean"} }
		vecOf := func(n int) []any {
			v := make([]any, n)
			for i := range v {
				v[i] = 0.5
			}
			return v
		}
		for k, entry := range []map[string]any{
			{"type": "vectorVamana", "vectorVamana": vam(4), "vectorFlat": flat(2)},
			{"type": "vectorFlat", "vectorFlat": flat(4), "vectorVamana": vam(2)},
			{"type": "vectorFlat", "vectorFlat": flat(4), "string": map[string]any{"caseSensitive": true}, "vectorVamana": vam(3)},
		} {
			col := fmt.Sprintf("dual%d", k)
			// bob has no other v2 collection: the plan's collection quota does not interfere
			r := t.exec(cl.JSON("POST", "/v2/collections", "bob", "basic", map[string]any{"id": col, "indexSchema": map[string]any{"v": entry}}), "any", "index entry with a superfluous parameter block")
			if r.Status != 200 {
				continue
			}
			what := fmt.Sprintf("on an index of type %v and dimension 4 (a superfluous block says otherwise)", entry["type"])
			for _, n := range []int{2, 3} {
				t.exec(cl.JSON("POST", "/v2/collections/"+col+"/points", "bob", "basic", map[string]any{"points": []any{map[string]any{"_id": p9, "v": vecOf(n)}}}), "invalid", fmt.Sprintf("stored vector of length %d %s", n, what))
			}
			t.exec(cl.JSON("POST", "/v2/collections/"+col+"/points", "bob", "basic", map[string]any{"points": []any{map[string]any{"_id": p1, "v": vecOf(4)}}}), "valid", "stored vector of length 4 "+what)
			for _, n := range []int{2, 3} {
				t.exec(cl.JSON("PUT", "/v2/collections/"+col+"/points", "bob", "basic", map[string]any{"points": []any{map[string]any{"_id": p1, "v": vecOf(n)}}}), "invalid", fmt.Sprintf("updated vector of length %d %s", n, what))
			}
			qk := "vectorFlat"
			q := map[string]any{"vector": vecOf(2), "operator": "near", "limit": 5}
			if entry["type"] == "vectorVamana" {
				qk = "vectorVamana"
				q["searchSize"] = 75
			}
			t.exec(cl.JSON("POST", "/v2/collections/"+col+"/points/search", "bob", "basic", map[string]any{"query": map[string]any{"property": "v", qk: q}, "limit": 5}), "invalid", "query vector of length 2 "+what)
			t.exec(cl.JSON("DELETE", "/v2/collections/"+col, "bob", "basic", nil), "any", "delete "+col)
		}
	default: // deep nesting, one request per job (a stack overflow is fatal for the process)
		depth := []int{10, 1000, 100000, 1000000}[(which-3)%4]
		enc := []string{"json", "msgpack"}[(which-3)/4%2]
		rt := bodyRoutes()[[]int{1, 4, 0}[(which-3)/8%3]]
		var body []byte
		ctype := "application/json"
		if enc == "json" {
			body = append(bytes.Repeat([]byte(`{"points":[`), 1), bytes.Repeat([]byte("["), depth)...)
			body = append(body, bytes.Repeat([]byte("]"), depth)...)
			body = append(body, []byte("]}")...)
			if rt.Kind == "search2" {
				body = append(bytes.Repeat([]byte(`{"property":"_and","_and":[`), depth), bytes.Repeat([]byte("]}"), depth)...)
				body = append([]byte(`{"limit":1,"query":`), append(body, '}')...)
			}
		} else {
			ctype = "application/msgpack"
			// {"points": [[[[...]]]]} resp. nested single-element arrays
			body = append([]byte{0x81, 0xa6, 'p', 'o', 'i', 'n', 't', 's'}, bytes.Repeat([]byte{0x91}, depth)...)
			body = append(body, 0xc0)
			if rt.Kind == "search2" {
				body = append([]byte{0x81, 0xa5, 'q', 'u', 'e', 'r', 'y'}, bytes.Repeat([]byte{0x81, 0xa4, '_', 'a', 'n', 'd', 0x91}, depth)...)
				body = append(body, 0x80)
			}
		}
		t.exec(cl.Req{Method: rt.Method, Path: rt.Path, User: rt.User, Plan: "basic", CType: ctype, Body: body}, "invalid", fmt.Sprintf("nesting depth %d (%s) on %s", depth, enc, rt.Kind))
	}
}

func master(cfg *harness.Config, rep *harness.Report) {
	rep.Level = "exploration"
	rep.Rule = "(a) every byte string of length <= L over a structural alphabet (JSON: { } [ ] \" : , 1 - e . a \\\\ space; MessagePack: fixmap/fixarray/str/nil/bool/float/int/array16/map16 lead bytes) as the body of each of the 10 body-taking routes of both API versions; (b) for 11 valid base requests (v2 create / insert / update / delete / hybrid search with nested filters, select, sort, paging / binary flat search; v1 create / insert / update / delete / search) every node of the request tree deleted or replaced by each of 34 values (null, booleans, 0, ±1, 1e400, 2^63, 2^63-1, -2^63, empty / reserved / dotted / 3000-byte strings, empty and nested arrays and objects, boundary numbers 24/76/101/4096/4097/10001, malformed and valid uuids, ...), in JSON and MessagePack, plus duplicate keys; (c) header / content-type variants, body-less and unknown routes, every v1 route on a v2 collection and vice versa, v1 searches with every boundary limit on a v1-shaped collection created through v2 with searchSize 25, quota and size limits, vector lengths 1/4096/4097, composite queries that carry both sub-query lists (the executed one has a schema-violating member), vector queries that carry a superfluous options block of another index type (the executed block's filter violates the schema), index entries with a superfluous parameter block of another type (the dimension in force is the one of the entry's type), nesting depth 10..10^6. Oracle: never a 5xx or a dead worker; requests that certainly violate the schema must get 4xx; after any 4xx the digest of all collections and points is unchanged; unmodified base requests succeed. distinct_nontrivial = distinct (route, status class, expectation) tuples"
	rep.Assumptions = []string{"the grammar is bounded: L<=4 (quick) / 5 (thorough) for JSON and for MessagePack; single mutations only", "one node, two users", "body sizes stay below 12 MB (no request-size limit exists in the server: memory exhaustion by huge bodies is not explored)"}
	p := pool.New(pool.Options{CPUsPerWorker: 2, JobTimeout: 300 * time.Second, MemLimitKB: 8 << 20})
	var jobs []job
	if cfg.Replay != "" {
		var r cl.Req
		if err := harness.LoadReplay(cfg.Replay, &r); err != nil {
			panic(err)
		}
		b, _ := json.Marshal(r)
		jobs = []job{{Kind: "single", Single: string(b)}}
	} else {
		maxJ, maxM := 4, 4
		if !cfg.Quick() {
			maxJ, maxM = 5, 5
		}
		for ri := range bodyRoutes() {
			for _, ct := range []string{"application/json", "application/msgpack"} {
				n, alpha := maxJ, len(jsonAlpha)
				if ct == "application/msgpack" {
					n, alpha = maxM, len(mpAlpha)
				}
				jobs = append(jobs, job{Kind: "bytes", Route: ri, CType: ct, Len: 0})
				for l := 1; l <= n; l++ {
					for f := 0; f < alpha; f++ {
						if l < n && f > 0 {
							// short lengths are small: one job enumerates all first characters
							continue
						}
						jobs = append(jobs, job{Kind: "bytes", Route: ri, CType: ct, Len: l, First: f})
					}
				}
			}
		}
		for bi := range bases() {
			jobs = append(jobs, job{Kind: "mutate", Base: bi, Enc: "json"}, job{Kind: "mutate", Base: bi, Enc: "msgpack"})
		}
		for m := 0; m < 3+24; m++ {
			jobs = append(jobs, job{Kind: "misc", Base: m})
		}
	}
	raws := make([]json.RawMessage, len(jobs))
	for i, j := range jobs {
		raws[i], _ = json.Marshal(j)
	}
	results, err := p.RunAll(raws)
	if err != nil {
		panic(err)
	}
	classes := map[string]int64{}
	for i, r := range results {
		j := jobs[i]
		if r.Crashed || r.Hung {
			kind := "died"
			if r.Hung {
				kind = "hung"
			}
			last := ""
			for _, l := range strings.Split(r.Stderr, "\n") {
				if strings.HasPrefix(l, "@@REQ ") {
					last = l
				}
			}
			rep.Violate(harness.Violation{Sig: "server-process-" + kind + ":" + fatalClass(r.Stderr), Detail: fmt.Sprintf("the process serving the handler chain %s while handling: %s\n%s", kind, clip(last, 400), fatalLines(r.Stderr)), Replay: j})
			continue
		}
		if r.Err != "" {
			rep.NotExhaustive("harness error: " + r.Err)
			continue
		}
		var res result
		json.Unmarshal(r.Out, &res)
		rep.Evaluations += res.Requests
		for k, v := range res.Classes {
			classes[k] += v
		}
		for _, v := range res.Viols {
			rep.Violate(harness.Violation{Sig: v.Sig, Detail: v.Detail, Replay: v.Req})
		}
	}
	rep.DistinctNontrivial = int64(len(classes))
	for k := range classes {
		rep.Outcome(k)
	}
	rep.Set("classes", classes)
	rep.Set("jobs", len(jobs))
	rep.Sample(map[string]any{"kind": "bytes", "example": `POST /v2/collections/colv2/points with body "{\"a"`})
	rep.Sample(map[string]any{"kind": "mutate", "example": "search hybrid: .query._or[0].vectorVamana.vector[0] := <deleted>"})
	rep.Sample(map[string]any{"kind": "misc", "example": "nesting depth 1000000 (msgpack) on insert2"})
}

func fatalClass(stderr string) string {
	for _, l := range strings.Split(stderr, "\n") {
		if strings.HasPrefix(l, "fatal error:") || strings.HasPrefix(l, "runtime: goroutine stack exceeds") {
			return strings.TrimSpace(l)
		}
	}
	return "unknown"
}

func fatalLines(stderr string) string {
	var out []string
	for _, l := range strings.Split(stderr, "\n") {
		if strings.HasPrefix(l, "fatal error:") || strings.HasPrefix(l, "runtime:") || strings.HasPrefix(l, "panic:") {
			out = append(out, l)
		}
		if len(out) > 6 {
			break
		}
	}
	return strings.Join(out, "\n")
}

func clip(s string, n int) string {
	if len(s) > n {
		return s[:n] + "…"
	}
	return s
}

func main() {
	harness.Main("C18", worker, master, "exploration")
}
