// C04 — flat vector search is exact k-nearest-neighbour search within the
// filter, for every metric / quantiser / cache state, after any write history.
package main

import (
	"encoding/json"
	"fmt"
	"math"
	"strings"
	"time"

	"github.com/semafind/semadb/models"
	sl "semaverif/harness/shardlib"

	"semaverif/engine/harness"
	"semaverif/engine/pool"
	"semaverif/engine/seqx"
)

const prop = "flat"

type cfgT struct {
	Inst   sl.InstCfg `json:"inst"`
	Metric string     `json:"metric"`
}

func f32(v float32) *float32 { return &v }

// vector pools per metric: six stored vectors (with ties on purpose) and four queries
func vectors(metric string) (stored [][]float32, queries [][]float32) {
	switch metric {
	case models.DistanceHamming, models.DistanceJaccard:
		stored = [][]float32{{0, 0, 0, 1}, {1, 0, 0, 1}, {1, 1, 0, 0}, {1, 1, 1, 1}, {0, 0, 0, 0}, {0, 1, 0, 1}}
		queries = [][]float32{{0, 0, 0, 0}, {1, 1, 1, 1}, {1, 0, 0, 0}, {0.4, 0.6, 0.5, 0.51}}
	case models.DistanceHaversine:
		stored = [][]float32{{0, 0}, {0, 90}, {51.5, -0.12}, {-33.9, 151.2}, {89, 0}, {0, -90}}
		queries = [][]float32{{0, 0}, {48.85, 2.35}, {-90, 0}, {10, 179}}
	case models.DistanceCosine:
		u := func(deg float64) []float32 {
			return []float32{float32(math.Cos(deg * math.Pi / 180)), float32(math.Sin(deg * math.Pi / 180)), 0, 0}
		}
		stored = [][]float32{u(0), u(30), u(90), u(180), u(270), u(45)}
		queries = [][]float32{u(10), u(100), u(225), {0, 0, 1, 0}}
	case "euclidean96":
		// 96 dimensions: beyond one 64-bit word of a binary quantiser.  Dimensions
		// below 64 are centred on 0, those from 64 up on 100, so that a learned
		// per-dimension threshold differs between dimension d and d-64.
		mk := func(i int) []float32 {
			v := make([]float32, 96)
			for d := range v {
				if d < 64 {
					v[d] = float32((i*5+d*3)%7) - 3
				} else {
					v[d] = 100 + float32((i*3+d)%5) - 2
				}
			}
			return v
		}
		for i := 0; i < 6; i++ {
			stored = append(stored, mk(i))
		}
		for i := 6; i < 10; i++ {
			queries = append(queries, mk(i))
		}
	case "euclidean6":
		// 6 dimensions: with 2 sub-vectors a product quantiser has sub-vectors of length 3, so that
		// "number of sub-vectors" and "length of a sub-vector" are different numbers
		stored = [][]float32{{0, 0, 0, 0, 0, 0}, {1, 0, 2, 0, 0, 3}, {0, 2, 0, 5, 1, 0}, {3, 3, 1, 0, 0, 4}, {-1, 0, 0, 2, 6, 0}, {1, 0, 4, 0.5, 0, 0}}
		queries = [][]float32{{0, 0, 0, 0, 0, 0}, {1, 1, 2, 0, 0, 3}, {-2, 0.5, 0, 1, 5, 0}, {3, 3, 1, 0, 0, 4}}
	case "euclidean1", "dot1":
		// huge but legal float32 magnitudes: squared differences and products overflow to an
		// infinity (each vector has ONE huge component, so no Inf - Inf arises); a point at an
		// infinite distance is still a stored point and must be returned when the limit allows
		stored = [][]float32{{0, 0, 0, 0}, {1, 0, 0, 0}, {3e19, 0, 0, 0}, {-3e19, 1, 0, 0}, {0, 2, 0, 0}, {2e19, 0, 0, 0}}
		queries = [][]float32{{0, 0, 0, 0}, {3e19, 0, 0, 0}, {1, 1, 0, 0}, {-1e19, 0, 0, 0}}
	default: // euclidean, dot: small lattice, exact in float32
		stored = [][]float32{{0, 0, 0, 0}, {1, 0, 0, 0}, {0, 2, 0, 0}, {3, 3, 0, 0}, {-1, 0, 0, 2}, {1, 0, 0, 0.5}}
		queries = [][]float32{{0, 0, 0, 0}, {1, 1, 0, 0}, {-2, 0.5, 0, 1}, {3, 3, 0, 0}}
	}
	return
}

func dimOf(metric string) uint {
	if metric == models.DistanceHaversine {
		return 2
	}
	if metric == "euclidean96" {
		return 96
	}
	if metric == "euclidean6" {
		return 6
	}
	return 4
}

func symbols(metric string) *sl.Symbols {
	st, _ := vectors(metric)
	d := func(i int) sl.Doc { return sl.Doc{prop: st[i], "tag": fmt.Sprintf("p%d", i)} }
	return sl.NewSymbols(
		sl.Op{Name: "ins1", Kind: "ins", Ids: []int{1}, Docs: []sl.Doc{d(0)}},
		sl.Op{Name: "ins2,3", Kind: "ins", Ids: []int{2, 3}, Docs: []sl.Doc{d(1), d(2)}},
		sl.Op{Name: "ins4,5(5 without vector)", Kind: "ins", Ids: []int{4, 5}, Docs: []sl.Doc{d(3), {"tag": "novec"}}},
		sl.Op{Name: "ins6", Kind: "ins", Ids: []int{6}, Docs: []sl.Doc{d(5)}},
		sl.Op{Name: "upd1(move)", Kind: "upd", Ids: []int{1}, Docs: []sl.Doc{{prop: st[4]}}},
		sl.Op{Name: "upd2(same as 1)", Kind: "upd", Ids: []int{2}, Docs: []sl.Doc{{prop: st[0]}}},
		sl.Op{Name: "upd1(remove vector)", Kind: "upd", Ids: []int{1}, Docs: []sl.Doc{{prop: "_delete"}}},
		sl.Op{Name: "upd1,5(add vector)", Kind: "upd", Ids: []int{1, 5}, Docs: []sl.Doc{{prop: st[0]}, {prop: st[3]}}},
		sl.Op{Name: "upd1,1(move then remove vector)", Kind: "upd", Ids: []int{1, 1}, Docs: []sl.Doc{{prop: st[5]}, {prop: "_delete"}}},
		sl.Op{Name: "upd2,2(remove then set vector)", Kind: "upd", Ids: []int{2, 2}, Docs: []sl.Doc{{prop: "_delete"}, {prop: st[4]}}},
		sl.Op{Name: "queries", Kind: "queries"},
		sl.Op{Name: "del1", Kind: "del", Ids: []int{1}},
		sl.Op{Name: "del2,3", Kind: "del", Ids: []int{2, 3}},
	)
}

// allSymbols = the main alphabet plus three batches that fail to commit after the index has done
// its work on the shared cache (used by a small alphabet of their own: the warm answers must stay
// those of the committed state).
func allSymbols(metric string) *sl.Symbols {
	st, _ := vectors(metric)
	d := func(i int) sl.Doc { return sl.Doc{prop: st[i], "tag": fmt.Sprintf("p%d", i)} }
	syms := symbols(metric)
	syms.Add(sl.Op{Name: "ins6 !commit-fails", Kind: "ins", Ids: []int{6}, Docs: []sl.Doc{d(5)}})
	syms.Add(sl.Op{Name: "upd1(move) !commit-fails", Kind: "upd", Ids: []int{1}, Docs: []sl.Doc{{prop: st[4]}}})
	syms.Add(sl.Op{Name: "del1 !commit-fails", Kind: "del", Ids: []int{1}})
	syms.Add(sl.Op{Name: "reopen", Kind: "reopen"})
	return syms
}

var failing = []string{"ins1", "ins2,3", "queries", "ins6 !commit-fails", "upd1(move) !commit-fails", "del1 !commit-fails"}

func battery(c cfgT) func(s *sl.ShardSystem) {
	_, queries := vectors(c.Metric)
	params := c.Inst.Schema[prop].VectorFlat
	filters := []struct {
		name string
		q    *models.Query
	}{{"none", nil}, {"ids{1,2,4}", ptr(sl.IdQuery(1, 2, 4))}, {"ids{9}", ptr(sl.IdQuery(9))}, {"ids{5,6}", ptr(sl.IdQuery(5, 6))}}
	return func(s *sl.ShardSystem) {
		d, err := s.In.Dump()
		if err != nil {
			s.Obs.Fail("dump-error", "%v", err)
			return
		}
		env, err := sl.EnvFor(params.DistanceMetric, params.Quantizer, int(params.VectorSize), d["index/vectorFlat/"+prop], sl.NodeIds(d))
		if err != nil {
			s.Obs.Fail("harness-env", "%v", err)
			return
		}
		sl.PQCheck(&s.Obs, "flat", env, s.M, prop)
		sl.VectorKeysCheck(&s.Obs, "flat", d["index/vectorFlat/"+prop], sl.NodeIds(d), s.M, prop)
		for qi, qv := range queries {
			for _, limit := range []int{1, 2, 75} {
				for _, w := range []*float32{nil, f32(0.5), f32(-2), f32(0)} {
					if w != nil && limit == 75 {
						continue
					}
					for _, f := range filters {
						q := models.Query{Property: prop, VectorFlat: &models.SearchVectorFlatOptions{Vector: qv, Operator: models.OperatorNear, Limit: limit, Weight: w, Filter: f.q}}
						var fset sl.IdSet
						if f.q != nil {
							fset, _ = sl.EvalFilter(s.M, *f.q)
						}
						desc := fmt.Sprintf("flat near q%d%v limit %d weight %v filter %s", qi, qv, limit, wstr(w), f.name)
						res, err := s.In.Search(q, nil, 0)
						if err != nil {
							s.Obs.Checks++
							s.Obs.Fail("flat-search-error", "%s: %v", desc, err)
							continue
						}
						sl.RankCheck(&s.Obs, "flat", env, s.M, prop, qv, limit, w, fset, res, true, desc)
					}
				}
			}
		}
	}
}

func wstr(w *float32) string {
	if w == nil {
		return "nil"
	}
	return fmt.Sprint(*w)
}

func ptr[T any](v T) *T { return &v }

func factory(raw json.RawMessage) (seqx.System, error) {
	var c cfgT
	if err := json.Unmarshal(raw, &c); err != nil {
		return nil, err
	}
	in, err := sl.NewInst(c.Inst)
	if err != nil {
		return nil, err
	}
	return &sl.ShardSystem{In: in, M: sl.NewModel(c.Inst.Schema, in.Cfg.MaxPointSize), Syms: allSymbols(c.Metric), Battery: battery(c), KeyFn: sl.FullKey}, nil
}

type quant struct {
	name string
	q    *models.Quantizer
}

func master(cfg *harness.Config, rep *harness.Report) {
	rep.Rule = "breadth-first search over write histories (insert with and without the vector, move, duplicate position, remove/add the field, the same point twice in one update batch, delete, node-id reuse, a round of searches between two batches) x metric {euclidean, dot, cosine, haversine, hamming, jaccard} x quantiser {none, binary fixed threshold, binary learned (trigger 3), product (2x2, trigger 3)}, plus 96-dimensional vectors with a learned binary quantiser (two words per vector, thresholds that differ between the words) x cache state {warm unlimited, reopened cold before every query, disabled, 1-byte limit}; after every batch 4 query vectors x limit {1,2,75} x weight {nil,0.5,-2,0} x pre-filter {none, subset, empty, partly vectorless}; each answer must be exactly the k nearest admissible points under the float64 definition of the index distance (ties at the cut either way)"
	rep.Assumptions = []string{"product quantiser: trigger threshold 3 instead of the HTTP layer's minimum of 1000 (same code path, training reachable within the bound); 2 sub-vectors x 2 centroids; centroids and centroid ids are read back from the bucket (k-means starts from a random point) and checked for consistency, the quantised distance is then the definition", "a learned threshold is read back from the bucket, not predicted", "float32 rounding tolerance 1e-4 relative"}
	p := pool.New(pool.Options{CPUsPerWorker: 2, JobTimeout: 60 * time.Second})
	if cfg.Replay != "" {
		var r seqx.Replay
		if err := harness.LoadReplay(cfg.Replay, &r); err != nil {
			panic(err)
		}
		seqx.ReplayOne(rep, p, r)
		return
	}
	thr := float32(0.5)
	none := quant{"none", nil}
	fixed := quant{"binfixed", &models.Quantizer{Type: models.QuantizerBinary, Binary: &models.BinaryQuantizerParamaters{Threshold: &thr, DistanceMetric: models.DistanceHamming}}}
	learned := quant{"binlearned", &models.Quantizer{Type: models.QuantizerBinary, Binary: &models.BinaryQuantizerParamaters{TriggerThreshold: 3, DistanceMetric: models.DistanceJaccard}}}
	// the shard layer takes the trigger threshold as given (the HTTP layer demands >= 1000): 3 makes training reachable at depth 2
	product := quant{"product", &models.Quantizer{Type: models.QuantizerProduct, Product: &models.ProductQuantizerParameters{NumCentroids: 2, NumSubVectors: 2, TriggerThreshold: 3}}}
	type combo struct {
		metric string
		q      quant
	}
	combos := []combo{{"euclidean96", learned}, {"euclidean6", product}, {models.DistanceEuclidean, product}, {models.DistanceDot, product}, {models.DistanceCosine, product}, {models.DistanceEuclidean, none}, {models.DistanceHamming, none}, {models.DistanceJaccard, none}, {models.DistanceEuclidean, learned}, {models.DistanceCosine, none}, {models.DistanceDot, fixed}, {models.DistanceDot, none}, {models.DistanceHaversine, none}, {"euclidean1", none}, {"dot1", none}}
	depth := 3
	if !cfg.Quick() {
		depth = 4
		combos = append(combos, combo{models.DistanceCosine, learned}, combo{models.DistanceEuclidean, fixed}, combo{models.DistanceHaversine, learned}, combo{models.DistanceDot, learned}, combo{models.DistanceCosine, fixed})
	}
	caches := []struct {
		name   string
		size   int64
		reopen bool
		dedup  bool
	}{{"warm", -1, false, false}, {"cold", -1, true, true}, {"disabled", 0, false, true}, {"tiny", 1, false, false}}
	var specs []seqx.Spec
	for _, c := range combos {
		for _, cs := range caches {
			if strings.HasSuffix(c.metric, "n1") || strings.HasSuffix(c.metric, "t1") {
				if cs.name == "disabled" || cs.name == "tiny" {
					continue // the huge-magnitude families: warm and cold only
				}
			}
			schema := models.IndexSchema{prop: {Type: models.IndexTypeVectorFlat, VectorFlat: &models.IndexVectorFlatParameters{VectorSize: dimOf(c.metric), DistanceMetric: strings.TrimRight(c.metric, "0123456789"), Quantizer: c.q.q}}}
			cc := cfgT{Inst: sl.InstCfg{Backend: "bbolt", CacheSize: cs.size, ReopenEachOp: cs.reopen, Schema: schema, Proxy: true}, Metric: c.metric}
			specs = append(specs, seqx.Spec{Name: fmt.Sprintf("%s/%s/%s", c.metric, c.q.name, cs.name), Cfg: cc, Alphabet: symbols(c.metric).Refs(), Depth: depth, Dedup: cs.dedup})
			if cs.name == "warm" && c.q.q != nil {
				// a cache that was filled by reading from the file (reopen, then a round of queries) and
				// then lives through further write transactions, which recycle the pages it was read from
				all := allSymbols(c.metric)
				pc := cc // (the storage proxy poisons what it handed out when a transaction ends: faultx.Proxy.Poison)
				specs = append(specs, seqx.Spec{Name: fmt.Sprintf("%s/%s/%s/loaded-from-file-then-written", c.metric, c.q.name, cs.name), Cfg: pc, Alphabet: all.Refs("ins4,5(5 without vector)", "upd1(move)", "upd2(same as 1)", "del2,3", "queries"), Depth: depth,
					Starts: [][]any{all.Refs("ins1", "ins2,3", "ins6", "reopen", "queries")}})
			}
			if cs.name == "warm" && c.metric == models.DistanceEuclidean {
				specs = append(specs, seqx.Spec{Name: fmt.Sprintf("%s/%s/%s/failing-commits", c.metric, c.q.name, cs.name), Cfg: cc, Alphabet: allSymbols(c.metric).Refs(failing...), Depth: depth})
			}
		}
	}
	seqx.Explore(cfg, rep, p, specs)
}

func main() {
	harness.Main("C04", seqx.Worker(factory), master, "model_checking")
}
