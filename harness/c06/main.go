// C06 — hybrid scores, field selection, sorting and paging behave as documented.
// Input mode: fixed data sets, exhaustive enumeration of query trees over a
// leaf pool x weight assignments, select lists, sort lists, offsets and limits.
package main

import (
	"encoding/json"
	"fmt"
	"math"
	"reflect"
	"sort"
	"strings"
	"time"

	"github.com/semafind/semadb/models"
	sl "semaverif/harness/shardlib"

	"semaverif/engine/harness"
	"semaverif/engine/pool"
	"semaverif/engine/seqx"
)

type cfgT struct {
	Inst  sl.InstCfg `json:"inst"`
	Part  int        `json:"part"` // which slice of the tree space this job checks
	Of    int        `json:"of"`
	Every int        `json:"every"` // select/sort/paging battery on every n-th tree
}

func schema() models.IndexSchema {
	return models.IndexSchema{
		"vec":  {Type: models.IndexTypeVectorVamana, VectorVamana: &models.IndexVectorVamanaParameters{VectorSize: 2, DistanceMetric: models.DistanceEuclidean, SearchSize: 75, DegreeBound: 64, Alpha: 1.2}},
		"flat": {Type: models.IndexTypeVectorFlat, VectorFlat: &models.IndexVectorFlatParameters{VectorSize: 2, DistanceMetric: models.DistanceEuclidean}},
		"txt":  {Type: models.IndexTypeText, Text: &models.IndexTextParameters{Analyser: "standard"}},
		"t2":   {Type: models.IndexTypeText, Text: &models.IndexTextParameters{Analyser: "standard"}},
		"cat":  {Type: models.IndexTypeString, String: &models.IndexStringParameters{CaseSensitive: true}},
		"a":    {Type: models.IndexTypeInteger},
	}
}

// data: 8 points; distances from the query vectors are pairwise distinct
func dataset() sl.Op {
	op := sl.Op{Name: "data", Kind: "ins"}
	add := func(id int, d sl.Doc) {
		op.Ids = append(op.Ids, id)
		op.Docs = append(op.Docs, d)
	}
	add(1, sl.Doc{"big": int64(1704067200000000000 + 6), "vec": []float32{0, 0}, "flat": []float32{10, 0}, "txt": "quick brown fox", "t2": "alpha beta", "cat": "x", "a": int64(1), "n": sl.Doc{"x": int64(5), "y": "five"}, "m": int64(3), "s": "scalar"})
	add(2, sl.Doc{"big": int64(1704067200000000000 + 1), "vec": []float32{1, 0}, "flat": []float32{7, 0}, "txt": "quick quick dog", "t2": "beta", "cat": "y", "a": int64(2), "n": sl.Doc{"x": int64(3)}, "m": "text", "s": sl.Doc{"x": int64(1)}})
	add(3, sl.Doc{"big": int64(1704067200000000000 + 4), "vec": []float32{0, 2.5}, "flat": []float32{4.5, 0}, "txt": "lazy dog", "t2": "gamma alpha alpha", "cat": "x", "a": int64(3), "n": sl.Doc{"x": int64(4)}, "m": int64(1)})
	add(4, sl.Doc{"big": int64(1704067200000000000 + 0), "vec": []float32{4, 4}, "flat": []float32{2.2, 0}, "txt": "fox", "cat": "x", "a": int64(4), "m": 2.5})
	add(5, sl.Doc{"big": int64(1704067200000000000 + 5), "vec": []float32{-6, 1}, "flat": []float32{1, 0}, "t2": "alpha", "cat": "y", "a": int64(5), "n": sl.Doc{"y": "only y"}})
	add(6, sl.Doc{"big": int64(1704067200000000000 + 2), "vec": []float32{9, -3}, "txt": "quick zebra", "cat": "z", "a": int64(2)})
	add(7, sl.Doc{"big": int64(1704067200000000000 + 3), "flat": []float32{0, 0.3}, "txt": "zebra", "t2": "beta gamma", "a": int64(7), "n": sl.Doc{"x": int64(5)}})
	add(8, sl.Doc{"other": "nothing indexed", "n": sl.Doc{"x": int64(1)}})
	return op
}

// bigData: 300 points on a line (pairwise distinct distances from any query on
// the line), so that composite queries merge far more ranked results than any
// preallocation or batching hint inside the merge.
func bigData() sl.Op {
	op := sl.Op{Name: "bigdata", Kind: "ins"}
	for i := 0; i < 300; i++ {
		op.Ids = append(op.Ids, 1000+i)
		d := sl.Doc{"flat": []float32{float32(i), float32(i) + 1}, "vec": []float32{float32(i%20) + 0.25*float32(i/20), float32(i / 20)}, "a": int64(i), "cat": fmt.Sprintf("c%d", i%3)}
		if i%2 == 0 {
			d["txt"] = fmt.Sprintf("quick w%d", i%5)
		}
		op.Docs = append(op.Docs, d)
	}
	return op
}

// bigTrees: composites whose sub-queries bring in up to 75 ranked results each
// (more than 128 distinct ones in total), with points found again by a later sub-query.
func bigTrees() []models.Query {
	flat := func(x float32, limit int, w *float32) models.Query {
		return models.Query{Property: "flat", VectorFlat: &models.SearchVectorFlatOptions{Vector: []float32{x, x + 1}, Operator: models.OperatorNear, Limit: limit, Weight: w}}
	}
	rng := func(lo, hi int64) models.Query {
		return models.Query{Property: "a", Integer: &models.SearchIntegerOptions{Value: lo, EndValue: hi, Operator: models.OperatorInRange}}
	}
	txt := models.Query{Property: "txt", Text: &models.SearchTextOptions{Value: "w1 w3", Operator: models.OperatorContainsAny, Limit: 75, Weight: f32(2)}}
	return []models.Query{
		{Property: "_or", Or: []models.Query{flat(0.1, 75, nil), flat(299.2, 75, nil), flat(0.1, 20, f32(0.5))}},
		{Property: "_or", Or: []models.Query{flat(0.1, 75, nil), flat(150.3, 75, f32(-1)), flat(60.2, 75, f32(0.5)), txt}},
		{Property: "_and", And: []models.Query{{Property: "_or", Or: []models.Query{flat(0.1, 75, nil), flat(100.4, 75, nil), flat(40.3, 75, f32(2))}}, rng(10, 260)}},
		{Property: "_or", Or: []models.Query{txt, flat(10.1, 75, nil), flat(200.6, 75, nil), rng(0, 299)}},
	}
}

func symbols() *sl.Symbols { return sl.NewSymbols(dataset(), bigData()) }

func f32(v float32) *float32 { return &v }

// ---- leaf pool ----

type weights struct{ vam, flat, txt, t2 *float32 }

func leaves(w weights) []models.Query {
	return []models.Query{
		{Property: "vec", VectorVamana: &models.SearchVectorVamanaOptions{Vector: []float32{0.2, 0.1}, Operator: models.OperatorNear, SearchSize: 75, Limit: 3, Weight: w.vam}},
		{Property: "flat", VectorFlat: &models.SearchVectorFlatOptions{Vector: []float32{0, 0}, Operator: models.OperatorNear, Limit: 2, Weight: w.flat}},
		{Property: "txt", Text: &models.SearchTextOptions{Value: "quick fox", Operator: models.OperatorContainsAny, Limit: 75, Weight: w.txt}},
		{Property: "t2", Text: &models.SearchTextOptions{Value: "alpha", Operator: models.OperatorContainsAll, Limit: 75, Weight: w.t2}},
		{Property: "cat", String: &models.SearchStringOptions{Value: "x", Operator: models.OperatorEquals}},
		{Property: "a", Integer: &models.SearchIntegerOptions{Value: 2, Operator: models.OperatorGreaterOrEq}},
		sl.IdQuery(1, 2, 6, 8, 30),
	}
}

func weightSets() []weights {
	return []weights{{}, {f32(0.5), f32(2), f32(-1), f32(1)}, {f32(-1), f32(0), f32(2), f32(0.5)}, {f32(0), f32(-1), f32(0), f32(2)}}
}

func and(qs ...models.Query) models.Query { return models.Query{Property: "_and", And: qs} }
func or(qs ...models.Query) models.Query  { return models.Query{Property: "_or", Or: qs} }

func trees(pool []models.Query) []models.Query {
	var out []models.Query
	for _, mk := range []func(...models.Query) models.Query{and, or} {
		for _, a := range pool {
			out = append(out, mk(a))
			for _, b := range pool {
				out = append(out, mk(a, b))
				for _, c := range pool {
					out = append(out, mk(a, b, c))
				}
			}
		}
	}
	for _, outer := range []func(...models.Query) models.Query{and, or} {
		for _, inner := range []func(...models.Query) models.Query{and, or} {
			for _, a := range pool {
				for _, b := range pool {
					for _, c := range pool {
						out = append(out, outer(a, inner(b, c)))
					}
				}
			}
		}
	}
	return out
}

// ---- reference evaluation of the statement ----

type rk struct {
	hybrid float64
}

type ev struct {
	set    sl.IdSet
	ranked map[int]*rk
	ambig  bool // a tie sits exactly at a limit cut: the leaf's result set is not unique
}

func evalTree(m *sl.Model, q models.Query, env map[string]sl.MetricEnv) ev {
	switch {
	case q.Property == "_and" || q.Property == "_or":
		subs := q.And
		if q.Property == "_or" {
			subs = q.Or
		}
		res := ev{set: sl.IdSet{}, ranked: map[int]*rk{}}
		var kids []ev
		for _, s := range subs {
			k := evalTree(m, s, env)
			kids = append(kids, k)
			res.ambig = res.ambig || k.ambig
		}
		for i, k := range kids {
			if i == 0 {
				for id := range k.set {
					res.set[id] = true
				}
				continue
			}
			if q.Property == "_or" {
				for id := range k.set {
					res.set[id] = true
				}
			} else {
				for id := range res.set {
					if !k.set[id] {
						delete(res.set, id)
					}
				}
			}
		}
		for _, k := range kids {
			for id, r := range k.ranked {
				if !res.set[id] {
					continue
				}
				if cur, ok := res.ranked[id]; ok {
					cur.hybrid += r.hybrid
				} else {
					res.ranked[id] = &rk{hybrid: r.hybrid}
				}
			}
		}
		return res
	case q.VectorVamana != nil || q.VectorFlat != nil:
		var vec []float32
		var limit int
		var w *float32
		if q.VectorVamana != nil {
			vec, limit, w = q.VectorVamana.Vector, q.VectorVamana.Limit, q.VectorVamana.Weight
		} else {
			vec, limit, w = q.VectorFlat.Vector, q.VectorFlat.Limit, q.VectorFlat.Weight
		}
		wt := 1.0
		if w != nil {
			wt = float64(*w)
		}
		type cand struct {
			id int
			d  float64
		}
		var cs []cand
		for id, d := range m.Docs {
			if v, ok := sl.VecOf(d, q.Property); ok {
				cs = append(cs, cand{id, sl.RefDistance(env[q.Property], vec, v)})
			}
		}
		sort.Slice(cs, func(i, j int) bool { return cs[i].d < cs[j].d })
		res := ev{set: sl.IdSet{}, ranked: map[int]*rk{}}
		if len(cs) > limit {
			if sl.Near(cs[limit-1].d, cs[limit].d) {
				res.ambig = true
			}
			cs = cs[:limit]
		}
		for _, c := range cs {
			res.set[c.id] = true
			res.ranked[c.id] = &rk{hybrid: -wt * c.d}
		}
		return res
	case q.Text != nil:
		tr := sl.BuildTextRef(m, q.Property)
		qt, _ := sl.Terms(q.Text.Value)
		match := tr.Matches(qt, q.Text.Operator, nil)
		wt := 1.0
		if q.Text.Weight != nil {
			wt = float64(*q.Text.Weight)
		}
		res := ev{set: sl.IdSet{}, ranked: map[int]*rk{}}
		if len(match) > q.Text.Limit {
			res.ambig = true // not used by the pool (limit 75)
		}
		for id := range match {
			res.set[id] = true
			res.ranked[id] = &rk{hybrid: wt * tr.Score(id, qt)}
		}
		return res
	default:
		s, err := sl.EvalFilter(m, q)
		if err != nil {
			panic(err)
		}
		return ev{set: s, ranked: map[int]*rk{}}
	}
}

func countRanking(q models.Query) int {
	n := 0
	for _, s := range append(append([]models.Query{}, q.And...), q.Or...) {
		n += countRanking(s)
	}
	if q.VectorVamana != nil || q.VectorFlat != nil || q.Text != nil {
		n++
	}
	return n
}

func checkTree(o *sl.Obs, in *sl.Inst, m *sl.Model, q models.Query, env map[string]sl.MetricEnv) {
	want := evalTree(m, q, env)
	if want.ambig {
		return
	}
	desc := sl.QueryString(q)
	res, err := in.Search(q, nil, 0)
	o.Checks++
	if err != nil {
		o.Fail("hybrid-search-error", "%s: %v", desc, err)
		return
	}
	got := sl.IdSet{}
	phase := 0 // 0 = ranked part, 1 = filter-only part
	prev := math.Inf(1)
	oneChildNeg := false
	if kids := append(append([]models.Query{}, q.And...), q.Or...); len(kids) == 1 && countRanking(q) == 1 {
		oneChildNeg = hasNegWeight(kids[0])
	}
	for i, r := range res {
		id := sl.UUIDIndex(r.Id)
		if got[id] {
			o.Fail("hybrid-duplicate-result", "%s: point %d twice", desc, id)
		}
		got[id] = true
		wr, isRanked := want.ranked[id]
		if !isRanked {
			phase = 1
			continue
		}
		if phase == 1 {
			o.Fail("hybrid-ranked-after-unranked", "%s: ranked point %d at position %d comes after a filter-only point", desc, id, i)
		}
		if !sl.Near(float64(r.HybridScore), wr.hybrid) {
			o.Fail("hybrid-wrong-score", "%s: point %d hybrid score %g, the sum of weighted contributions is %g", desc, id, r.HybridScore, wr.hybrid)
		}
		if float64(r.HybridScore) > prev && !sl.Near(float64(r.HybridScore), prev) {
			sig := "hybrid-not-highest-first"
			if oneChildNeg {
				sig = "hybrid-not-highest-first:single-child-composite-negative-weight"
			}
			o.Fail(sig, "%s: hybrid %g after %g at position %d", desc, r.HybridScore, prev, i)
		}
		prev = float64(r.HybridScore)
	}
	if !got.Equal(want.set) {
		o.Fail("hybrid-wrong-result-set", "%s returned %v, union/intersection of the sub-results is %v", desc, got, want.set)
	}
	o.Note(desc, got.String())
}

func hasNegWeight(q models.Query) bool {
	for _, w := range []*float32{wOf(q)} {
		if w != nil && *w < 0 {
			return true
		}
	}
	return false
}

func wOf(q models.Query) *float32 {
	switch {
	case q.VectorVamana != nil:
		return q.VectorVamana.Weight
	case q.VectorFlat != nil:
		return q.VectorFlat.Weight
	case q.Text != nil:
		return q.Text.Weight
	}
	return nil
}

// ---- select / sort / paging ----

var selects = [][]string{nil, {"*"}, {"a"}, {"big", "a"}, {"n.x"}, {"n.x", "n"}, {"n", "n.x"}, {"a", "missing"}, {"n.y", "cat", "a"}, {"n.x", "n.y"}, {"*", "a"}, {"a", "*"}}

var sorts = [][]models.SortOption{
	nil,
	{{Property: "a"}}, {{Property: "a", Descending: true}}, {{Property: "n.x"}}, {{Property: "n.x", Descending: true}}, {{Property: "missing"}}, {{Property: "m"}},
	{{Property: "cat"}, {Property: "a", Descending: true}}, {{Property: "n.x"}, {Property: "a"}}, {{Property: "missing"}, {Property: "a"}}, {{Property: "cat", Descending: true}, {Property: "n.x", Descending: true}},
	// every direction pattern over two and three keys with ties on the leading keys (a direction must not leak into the next key)
	{{Property: "cat", Descending: true}, {Property: "a"}}, {{Property: "cat"}, {Property: "a"}},
	{{Property: "cat", Descending: true}, {Property: "n.x"}, {Property: "a", Descending: true}}, {{Property: "cat"}, {Property: "n.x", Descending: true}, {Property: "a"}},
	{{Property: "missing", Descending: true}, {Property: "cat", Descending: true}, {Property: "a"}},
	{{Property: "a"}, {Property: "a"}, {Property: "cat"}, {Property: "n.x"}, {Property: "n.y"}, {Property: "m"}, {Property: "missing"}, {Property: "a", Descending: true}, {Property: "cat"}, {Property: "n.x"}},
	// integers beyond 2^53 that differ by 1 (nanosecond timestamps, snowflake ids): equal as float64, distinct as int64
	{{Property: "big"}}, {{Property: "big", Descending: true}}, {{Property: "big"}, {Property: "a", Descending: true}},
}

// selectRef builds the expected DecodedData for a select list per the
// statement: exactly the selected paths with their stored values.
func selectRef(d sl.Doc, sel []string) sl.Doc {
	out := sl.Doc{}
	for _, p := range sel {
		if p == "*" {
			// the implementation stops at "*": the whole document
			out = sl.Doc{}
			for k, v := range d {
				out[k] = v
			}
			return out
		}
		v, ok := sl.Lookup(d, p)
		if !ok {
			continue
		}
		segs := strings.Split(p, ".")
		cur := out
		for i, s := range segs {
			if i == len(segs)-1 {
				cur[s] = v
				break
			}
			nxt, ok := cur[s].(map[string]any)
			if !ok {
				nxt = map[string]any{}
				cur[s] = nxt
			}
			cur = nxt
		}
	}
	return out
}

func cmpAny(a, b any) int {
	ka, kb := reflect.ValueOf(a).Kind(), reflect.ValueOf(b).Kind()
	if ka != kb {
		if ka < kb {
			return -1
		}
		return 1
	}
	switch x := a.(type) {
	case int64:
		y := b.(int64)
		switch {
		case x < y:
			return -1
		case x > y:
			return 1
		}
	case float64:
		y := b.(float64)
		switch {
		case x < y:
			return -1
		case x > y:
			return 1
		}
	case string:
		return strings.Compare(x, b.(string))
	}
	return 0
}

// sortCmp is the comparator of the statement over the *selected* data.
func sortCmp(a, b sl.Doc, opts []models.SortOption) int {
	for _, s := range opts {
		av, aok := sl.Lookup(a, s.Property)
		bv, bok := sl.Lookup(b, s.Property)
		switch {
		case aok && !bok:
			return -1
		case !aok && bok:
			return 1
		case !aok && !bok:
			continue
		}
		c := cmpAny(av, bv)
		if s.Descending {
			c = -c
		}
		if c != 0 {
			return c
		}
	}
	return 0
}

func sortKeyString(d sl.Doc, opts []models.SortOption) string {
	var parts []string
	for _, s := range opts {
		v, ok := sl.Lookup(d, s.Property)
		parts = append(parts, fmt.Sprintf("%v/%T/%v", ok, v, v))
	}
	return strings.Join(parts, "|")
}

func checkSelectSortPage(o *sl.Obs, in *sl.Inst, m *sl.Model, q models.Query, env map[string]sl.MetricEnv) {
	want := evalTree(m, q, env)
	if want.ambig {
		return
	}
	base := sl.QueryString(q)
	for _, sel := range selects {
		for _, so := range sorts {
			if len(so) > 0 && len(sel) == 0 {
				continue // sorting works on the selected data
			}
			full, err := in.Shard.SearchPoints(models.SearchRequest{Query: q, Select: sel, Sort: so, Limit: 100})
			o.Checks++
			desc := fmt.Sprintf("%s select %v sort %v", base, sel, sortStr(so))
			if err != nil {
				o.Fail("select-sort-error", "%s: %v", desc, err)
				continue
			}
			got := sl.IdSet{}
			var docs []sl.Doc
			for _, r := range full {
				id := sl.UUIDIndex(r.Id)
				got[id] = true
				var d sl.Doc
				if len(sel) == 0 {
					// nothing selected: no data is transmitted
					if len(r.Data) != 0 && len(so) == 0 {
						o.Fail("select-none-returns-data", "%s: point %d carries data although nothing was selected", desc, id)
					}
					docs = append(docs, sl.Doc{})
					continue
				}
				d, derr := sl.ResultDoc(r)
				if derr != nil {
					o.Fail("select-undecodable", "%s: %v", desc, derr)
				}
				d = sl.Canon(d)
				wantDoc := sl.Canon(selectRef(m.Docs[id], sel))
				if !sl.DocEqual(d, wantDoc) {
					o.Fail("select-wrong-data", "%s: point %d came back as %s, the selected paths of the stored document are %s", desc, id, sl.DocString(d), sl.DocString(wantDoc))
				}
				docs = append(docs, d)
			}
			if !got.Equal(want.set) {
				o.Fail("select-sort-changes-result-set", "%s returned %v, want %v", desc, got, want.set)
			}
			if len(so) > 0 {
				for i := 1; i < len(docs); i++ {
					if sortCmp(docs[i-1], docs[i], so) > 0 {
						o.Fail("sort-order-wrong", "%s: position %d (%s) sorts after position %d (%s)", desc, i-1, sl.DocString(docs[i-1]), i, sl.DocString(docs[i]))
						break
					}
				}
			}
			// paging: every (offset, limit) must be the contiguous slice of that order
			if len(sel) > 1 && len(so) > 1 {
				continue // keep the product bounded: paging is checked on the simpler half
			}
			key := func(i int, rs []models.SearchResult, ds []sl.Doc) string {
				_, rankedPt := want.ranked[sl.UUIDIndex(rs[i].Id)]
				if len(so) > 0 {
					return sortKeyString(ds[i], so)
				}
				if rankedPt {
					return fmt.Sprintf("r%.4g", rs[i].HybridScore)
				}
				return "unranked"
			}
			n := len(full)
			for _, off := range []int{0, 1, 2, n - 1, n, n + 3} {
				if off < 0 {
					continue
				}
				for _, lim := range []int{1, 2, 100} {
					page, err := in.Shard.SearchPoints(models.SearchRequest{Query: q, Select: sel, Sort: so, Offset: off, Limit: lim})
					o.Checks++
					pdesc := fmt.Sprintf("%s offset %d limit %d", desc, off, lim)
					if err != nil {
						o.Fail("paging-error", "%s: %v", pdesc, err)
						continue
					}
					lo, hi := min(off, n), min(off+lim, n)
					if len(page) != hi-lo {
						o.Fail("paging-wrong-length", "%s: %d results, the full order has %d so the slice has %d", pdesc, len(page), n, hi-lo)
						continue
					}
					var pdocs []sl.Doc
					for _, r := range page {
						d, _ := sl.ResultDoc(r)
						pdocs = append(pdocs, sl.Canon(d))
					}
					for i := range page {
						if !got[sl.UUIDIndex(page[i].Id)] {
							o.Fail("paging-foreign-point", "%s: point %d is not in the full answer", pdesc, sl.UUIDIndex(page[i].Id))
						}
						if key(i, page, pdocs) != key(lo+i, full, docs) {
							o.Fail("paging-not-a-slice", "%s: position %d has order key %s, the full order has %s at position %d", pdesc, i, key(i, page, pdocs), key(lo+i, full, docs), lo+i)
							break
						}
					}
				}
			}
		}
	}
}

func sortStr(so []models.SortOption) string {
	var p []string
	for _, s := range so {
		d := "↑"
		if s.Descending {
			d = "↓"
		}
		p = append(p, s.Property+d)
	}
	return "[" + strings.Join(p, ",") + "]"
}

func envs(in *sl.Inst) map[string]sl.MetricEnv {
	return map[string]sl.MetricEnv{"vec": {Metric: models.DistanceEuclidean}, "flat": {Metric: models.DistanceEuclidean}}
}

func factory(raw json.RawMessage) (seqx.System, error) {
	var c cfgT
	if err := json.Unmarshal(raw, &c); err != nil {
		return nil, err
	}
	in, err := sl.NewInst(c.Inst)
	if err != nil {
		return nil, err
	}
	return &sl.ShardSystem{In: in, M: sl.NewModel(c.Inst.Schema, in.Cfg.MaxPointSize), Syms: symbols(),
		Battery: func(s *sl.ShardSystem) {
			env := envs(s.In)
			if c.Of == 0 {
				// the 300-point data set: a few large composites, and paging / select on them
				for _, q := range bigTrees() {
					checkTree(&s.Obs, s.In, s.M, q, env)
				}
				return
			}
			n := 0
			for _, w := range weightSets() {
				ts := trees(leaves(w))
				for i, q := range ts {
					n++
					if n%c.Of != c.Part {
						continue
					}
					checkTree(&s.Obs, s.In, s.M, q, env)
					// select / sort / paging on a thin, fixed sample of the trees
					if i%c.Every == 0 {
						checkSelectSortPage(&s.Obs, s.In, s.M, q, env)
					}
				}
			}
			if c.Part == 0 {
				// plain leaves and the select-through-a-scalar case
				for _, q := range leaves(weights{}) {
					checkSelectSortPage(&s.Obs, s.In, s.M, q, env)
				}
				scalarSelect(&s.Obs, s.In, s.M)
			}
		}}, nil
}

// scalarSelect: a select path that runs through a scalar is unselectable for
// that point; the statement promises the selectable fields, not an error.
func scalarSelect(o *sl.Obs, in *sl.Inst, m *sl.Model) {
	for _, sel := range [][]string{{"s.x"}, {"a.b"}, {"cat.z", "a"}} {
		res, err := in.Shard.SearchPoints(models.SearchRequest{Query: sl.IdQuery(1, 2, 3), Select: sel, Limit: 10})
		o.Checks++
		if err != nil {
			o.Fail("select-through-scalar-fails-search", "select %v over points where the path runs through a scalar: the whole search fails: %v", sel, err)
			continue
		}
		for _, r := range res {
			id := sl.UUIDIndex(r.Id)
			d, _ := sl.ResultDoc(r)
			want := sl.Canon(selectRef(m.Docs[id], sel))
			if !sl.DocEqual(sl.Canon(d), want) {
				o.Fail("select-wrong-data", "select %v: point %d came back as %s, want %s", sel, id, sl.DocString(d), sl.DocString(want))
			}
		}
	}
}

func master(cfg *harness.Config, rep *harness.Report) {
	rep.Rule = "a 300-point data set with four composites that merge up to 225 ranked results (sub-query limits of 75, points found again by later sub-queries, mixed with text and a filter); fixed 8-point data set (distinct distances, points lacking fields, a field that is int / string / float / absent, a field that is scalar in one point and a map in another); all _and/_or trees with 1-3 children and all two-level trees over a 7-leaf pool (graph vector, flat vector, two text, string filter, integer filter, _id) x 4 weight assignments (nil / positive / negative / an explicit zero on each kind of ranking leaf): result set = set algebra of the sub-results, hybrid = sum of weighted contributions, ranked first highest hybrid first, filter-only after; on a fixed sample of trees and all leaves: 12 select lists x 20 sort lists (asc/desc, integers beyond 2^53 one apart, every direction pattern over two and three keys with ties on the leading keys, nested, missing, mixed-type, 10 keys) with DecodedData = exactly the selected stored values and adjacent-pair sortedness, and offset {0,1,2,n-1,n,n+3} x limit {1,2,100} = contiguous slice of the full order (compared by order keys)"
	rep.Assumptions = []string{"sorting is defined on the selected data (sort keys must be selected or '*')", "leaf limits are cut where no distance tie exists; trees whose reference is ambiguous are skipped and counted", "ties in the final order may be resolved either way"}
	p := pool.New(pool.Options{CPUsPerWorker: 2, JobTimeout: 300 * time.Second})
	syms := symbols()
	if cfg.Replay != "" {
		var r seqx.Replay
		if err := harness.LoadReplay(cfg.Replay, &r); err != nil {
			panic(err)
		}
		seqx.ReplayOne(rep, p, r)
		return
	}
	var specs []seqx.Spec
	parts := 16
	every := 41
	if !cfg.Quick() {
		every = 5
	}
	for _, be := range []string{"bbolt", "mem"} {
		for part := 0; part < parts; part++ {
			specs = append(specs, seqx.Spec{Name: fmt.Sprintf("%s/part%d", be, part), Cfg: cfgT{Inst: sl.InstCfg{Backend: be, CacheSize: -1, Schema: schema()}, Part: part, Of: parts, Every: every}, Starts: [][]any{syms.Refs("data")}, Depth: 0})
		}
	}
	for _, be := range []string{"bbolt", "mem"} {
		specs = append(specs, seqx.Spec{Name: be + "/300-points", Cfg: cfgT{Inst: sl.InstCfg{Backend: be, CacheSize: -1, Schema: schema()}}, Starts: [][]any{syms.Refs("bigdata")}, Depth: 0})
	}
	seqx.Explore(cfg, rep, p, specs)
}

func main() {
	harness.Main("C06", seqx.Worker(factory), master, "model_checking")
}
