package main

import "os"

func removeAll(p string) { os.RemoveAll(p) }
