// C15 — inserted points are partitioned over shards within limits; quotas are
// enforced.  (a) exhaustive enumeration of the argument space of the real
// distributePoints (verif export hook); (b) breadth-first search over request
// histories on a real single node around the quota boundaries.
package main

import (
	"encoding/json"
	"errors"
	"fmt"
	"sort"
	"time"

	"github.com/semafind/semadb/cluster"
	"github.com/semafind/semadb/models"
	cl "semaverif/harness/clusterlib"
	sl "semaverif/harness/shardlib"

	"semaverif/engine/harness"
	"semaverif/engine/pool"
	"semaverif/engine/seqx"
)

// ---------------------------------------------------------------------------
// (a) function level

type fjob struct {
	Kind     string `json:"kind"` // func
	MaxCount int64  `json:"maxCount"`
	SizeMode int    `json:"sizeMode"`
}

type fres struct {
	Evals   int64    `json:"evals"`
	Nontriv int64    `json:"nontriv"`
	Viols   []fviol  `json:"viols"`
	Outs    []string `json:"outs"`
}

type fviol struct {
	Sig    string `json:"sig"`
	Detail string `json:"detail"`
}

const pSize = 16 + 8 // uuid + 8 data bytes

func checkDistribute(res *fres, shards []cluster.VerifShardInfo, sizes []int, maxSize, maxCount int64, failAt int) {
	points := make([]models.Point, len(sizes))
	for i, sz := range sizes {
		points[i] = models.Point{Id: sl.UUID(i + 1), Data: make([]byte, sz-16)}
	}
	created := 0
	var newIds []string
	in := append([]cluster.VerifShardInfo{}, shards...)
	ass, err := cluster.VerifDistributePoints(in, points, maxSize, maxCount, func() (string, error) {
		created++
		if failAt > 0 && created == failAt {
			return "", errors.New("cannot create shard")
		}
		id := fmt.Sprintf("new%d", created)
		newIds = append(newIds, id)
		return id, nil
	})
	res.Evals++
	desc := fmt.Sprintf("shards %v, point sizes %v, maxShardSize %d, maxShardPointCount %d, createShard fails at call %d", shards, sizes, maxSize, maxCount, failAt)
	add := func(sig, format string, a ...any) {
		if len(res.Viols) < 10 {
			res.Viols = append(res.Viols, fviol{sig, fmt.Sprintf(format, a...) + " | " + desc})
		}
	}
	// reference: walk the shards in order, fill each greedily
	type sh struct {
		id          string
		size, count int64
	}
	var all []sh
	for _, s := range shards {
		all = append(all, sh{s.Id, s.Size, s.PointCount})
	}
	want := map[string][2]int{}
	idx := 0
	wantCreate := 0
	wantErr := false
	if len(all) == 0 && len(points) > 0 {
		wantCreate++
		if failAt == wantCreate {
			wantErr = true
		}
		all = append(all, sh{id: fmt.Sprintf("new%d", wantCreate)})
	}
	for i := 0; i < len(all) && !wantErr; i++ {
		start := idx
		for idx < len(points) {
			sz := int64(sizes[idx])
			if all[i].size+sz > maxSize || all[i].count+1 > maxCount {
				break
			}
			all[i].size += sz
			all[i].count++
			idx++
		}
		if idx > start {
			want[all[i].id] = [2]int{start, idx}
		}
		if i == len(all)-1 && idx < len(points) {
			wantCreate++
			if failAt == wantCreate {
				wantErr = true
				break
			}
			all = append(all, sh{id: fmt.Sprintf("new%d", wantCreate)})
		}
	}
	if wantErr {
		if err == nil {
			add("shard-creation-error-swallowed", "createShard failed but distributePoints returned %v", ass)
		}
		return
	}
	if err != nil {
		add("distribute-error", "unexpected error %v", err)
		return
	}
	// properties of the statement, checked directly on the answer
	type rg struct {
		id   string
		a, b int
	}
	var rs []rg
	for id, r := range ass {
		rs = append(rs, rg{id, r[0], r[1]})
	}
	sort.Slice(rs, func(i, j int) bool { return rs[i].a < rs[j].a })
	next := 0
	for _, r := range rs {
		if r.a != next || r.b <= r.a {
			add("ranges-not-contiguous-disjoint", "assignments %v are not contiguous disjoint ranges", ass)
			return
		}
		next = r.b
	}
	if next != len(points) {
		add("points-unassigned", "assignments %v cover [0,%d) but there are %d points", ass, next, len(points))
		return
	}
	load := map[string]sh{}
	for _, s := range shards {
		load[s.Id] = sh{s.Id, s.Size, s.PointCount}
	}
	for _, r := range rs {
		if r.b == r.a {
			continue // nothing added to this shard
		}
		l := load[r.id]
		for i := r.a; i < r.b; i++ {
			l.size += int64(sizes[i])
			l.count++
		}
		if l.count > maxCount {
			add("shard-point-count-exceeded", "shard %s ends up with %d points, maximum %d", r.id, l.count, maxCount)
		}
		if l.size > maxSize {
			add("shard-size-exceeded", "shard %s ends up with %d bytes, maximum %d", r.id, l.size, maxSize)
		}
	}
	if created != wantCreate {
		add("fresh-shard-count-wrong", "%d fresh shards were requested, the points left over after filling the listed shards need %d", created, wantCreate)
	}
	if fmt.Sprint(ass) != fmt.Sprint(want) {
		add("assignment-differs-from-greedy-fill", "got %v, filling the shards in order gives %v", ass, want)
	}
	if len(rs) > 1 {
		res.Nontriv++
	}
	res.Outs = append(res.Outs, fmt.Sprint(len(rs), created))
}

func funcWorker(j fjob) fres {
	var res fres
	p := int64(pSize)
	maxSizes := []int64{3*p + 1, 4 * p, 100 * p}
	maxSize := maxSizes[j.SizeMode]
	maxCount := j.MaxCount
	countVals := []int64{0, 1, maxCount - 1, maxCount}
	sizeVals := []int64{0, maxSize - p, maxSize}
	var shardStates []cluster.VerifShardInfo
	for _, c := range countVals {
		if c < 0 {
			continue
		}
		for _, s := range sizeVals {
			if s < 0 {
				continue
			}
			shardStates = append(shardStates, cluster.VerifShardInfo{PointCount: c, Size: s})
		}
	}
	// dedupe
	seen := map[string]bool{}
	var st []cluster.VerifShardInfo
	for _, s := range shardStates {
		k := fmt.Sprint(s.PointCount, s.Size)
		if !seen[k] {
			seen[k] = true
			st = append(st, s)
		}
	}
	// shards that are already strictly over a limit (a shard's reported size is its
	// file size, which grows in pages and overshoots; a count limit may have been
	// lowered): they take nothing more
	st = append(st, cluster.VerifShardInfo{PointCount: maxCount + 1, Size: 0}, cluster.VerifShardInfo{PointCount: 1, Size: maxSize + 1}, cluster.VerifShardInfo{PointCount: 1, Size: maxSize + 4096})
	var rec func(prefix []cluster.VerifShardInfo, n int)
	run := func(shards []cluster.VerifShardInfo) {
		for i := range shards {
			shards[i].Id = fmt.Sprintf("s%d", i)
		}
		for batch := 0; batch <= 6; batch++ {
			// point size patterns: all p, all 3p, alternating
			for pat := 0; pat < 3; pat++ {
				sizes := make([]int, batch)
				for i := range sizes {
					switch pat {
					case 0:
						sizes[i] = pSize
					case 1:
						sizes[i] = 3 * pSize
					default:
						if i%2 == 0 {
							sizes[i] = pSize
						} else {
							sizes[i] = 3 * pSize
						}
					}
				}
				if batch == 0 && pat > 0 {
					continue
				}
				for failAt := 0; failAt <= 2; failAt++ {
					checkDistribute(&res, shards, sizes, maxSize, maxCount, failAt)
				}
			}
		}
	}
	rec = func(prefix []cluster.VerifShardInfo, n int) {
		run(append([]cluster.VerifShardInfo{}, prefix...))
		if n == 0 {
			return
		}
		for _, s := range st {
			rec(append(prefix, s), n-1)
		}
	}
	rec(nil, 3)
	// keep the outcome list small
	set := map[string]bool{}
	for _, o := range res.Outs {
		set[o] = true
	}
	res.Outs = res.Outs[:0]
	for o := range set {
		res.Outs = append(res.Outs, o)
	}
	return res
}

// ---------------------------------------------------------------------------
// (b) end to end on one node

type e2eCfg struct {
	MaxShardPointCount int64 `json:"mspc"`
	Quota              int64 `json:"quota"`
	// MaxCols: the plan's MaxCollections when SetMaxCols (otherwise 2); 0 is a legal plan that allows no collection
	MaxCols    int  `json:"maxCols,omitempty"`
	SetMaxCols bool `json:"setMaxCols,omitempty"`
}

type opRef struct {
	Name string `json:"name"`
}

type e2eSys struct {
	node   *cluster.ClusterNode
	root   string
	cfg    e2eCfg
	plan   models.UserPlan
	pts    map[string]map[int]int // collection -> stored point ids -> copies (a client that re-inserts a stored id breaks the API's precondition; it is not rejected when the id lands in another shard)
	cols   map[string]bool
	obs    sl.Obs
	nextId int
}

func e2eFactory(raw json.RawMessage) (seqx.System, error) {
	var c e2eCfg
	if err := json.Unmarshal(raw, &c); err != nil {
		return nil, err
	}
	root := cl.TempRoot("c15")
	spec := cl.NodeSpec{Name: "A", Port: 1, Dir: cl.NodeDir(root, "A")}
	node, err := cl.Start(spec, []string{spec.Host()}, cl.Options{MaxShardPointCount: c.MaxShardPointCount}, false)
	if err != nil {
		return nil, err
	}
	plan := cl.Plan()
	plan.MaxCollectionPointCount = c.Quota
	plan.MaxCollections = 2
	if c.SetMaxCols {
		plan.MaxCollections = c.MaxCols
	}
	return &e2eSys{node: node, root: root, cfg: c, plan: plan, pts: map[string]map[int]int{}, cols: map[string]bool{}, nextId: 1}, nil
}

func (s *e2eSys) col(id string) models.Collection {
	return models.Collection{UserId: "alice", Id: id, UserPlan: s.plan, IndexSchema: models.IndexSchema{"a": {Type: models.IndexTypeInteger}}}
}

func (s *e2eSys) fail(sig, format string, a ...any) []seqx.Viol {
	return []seqx.Viol{{Sig: sig, Detail: fmt.Sprintf(format, a...)}}
}

func (s *e2eSys) inventory() (string, map[string]int64, error) {
	cols, err := s.node.ListCollections("alice")
	if err != nil {
		return "", nil, err
	}
	sort.Slice(cols, func(i, j int) bool { return cols[i].Id < cols[j].Id })
	totals := map[string]int64{}
	var parts []any
	for _, c := range cols {
		c.UserPlan = s.plan
		infos, err := s.node.GetShardsInfo(c)
		if err != nil {
			return "", nil, err
		}
		var t int64
		for i, si := range infos {
			t += si.PointCount
			parts = append(parts, c.Id, i, si.PointCount)
		}
		totals[c.Id] = t
		parts = append(parts, c.Id, "shards", len(infos))
	}
	return fmt.Sprint(parts...), totals, nil
}

func (s *e2eSys) Apply(raw json.RawMessage) []seqx.Viol {
	var ref opRef
	json.Unmarshal(raw, &ref)
	before, totalsBefore, err := s.inventory()
	if err != nil {
		return s.fail("inventory-error", "%v", err)
	}
	switch ref.Name {
	case "create c1", "create c2", "create c3":
		id := "col" + ref.Name[len(ref.Name)-1:]
		err := s.node.CreateCollection(s.col(id))
		switch {
		case s.cols[id]:
			if !errors.Is(err, cluster.ErrExists) {
				return s.fail("create-existing-collection", "creating %s again returned %v", id, err)
			}
		case len(s.cols) >= s.plan.MaxCollections:
			if !errors.Is(err, cluster.ErrQuotaReached) {
				return s.fail("collection-quota-not-enforced", "user has %d collections (maximum %d) but creating %s returned %v", len(s.cols), s.plan.MaxCollections, id, err)
			}
			after, _, _ := s.inventory()
			if after != before {
				return s.fail("refused-create-has-side-effects", "before %s after %s", before, after)
			}
		default:
			if err != nil {
				return s.fail("create-collection-failed", "%v", err)
			}
			s.cols[id] = true
			s.pts[id] = map[int]int{}
		}
		return nil
	case "insert 1", "insert 2", "insert 3 (one stored id)", "insert 5":
		if !s.cols["col1"] {
			return nil // nothing to insert into
		}
		col, err := s.node.GetCollection("alice", "col1")
		if err != nil {
			return s.fail("get-collection-failed", "%v", err)
		}
		col.UserPlan = s.plan
		n := map[string]int{"insert 1": 1, "insert 2": 2, "insert 3 (one stored id)": 3, "insert 5": 5}[ref.Name]
		var ids []int
		dupStored := -1
		for i := 0; i < n; i++ {
			ids = append(ids, s.nextId)
			s.nextId++
		}
		if ref.Name == "insert 3 (one stored id)" {
			// reuse one stored id (the smallest): the range that contains it fails as a whole
			var stored []int
			for id := range s.pts["col1"] {
				stored = append(stored, id)
			}
			sort.Ints(stored)
			if len(stored) > 0 {
				dupStored = stored[0]
				ids[0] = dupStored
			}
		}
		points := make([]models.Point, len(ids))
		for i, id := range ids {
			points[i] = models.Point{Id: sl.UUID(id), Data: sl.Encode(sl.Doc{"a": int64(id)})}
		}
		failed, err := s.node.InsertPoints(col, points)
		total := totalsBefore["col1"]
		if total+int64(n) > s.plan.MaxCollectionPointCount {
			if !errors.Is(err, cluster.ErrQuotaReached) {
				return s.fail("point-quota-not-enforced", "collection holds %d points, quota %d, inserting %d returned err=%v failed=%v", total, s.plan.MaxCollectionPointCount, n, err, failed)
			}
			after, _, _ := s.inventory()
			if after != before {
				return s.fail("refused-insert-has-side-effects", "before %s after %s", before, after)
			}
			return nil
		}
		if err != nil {
			return s.fail("insert-failed", "%v", err)
		}
		// points is now id-sorted (the API sorts in place); failed ranges refer to that order
		failedIdx := map[int]bool{}
		for _, fr := range failed {
			if fr.Start < 0 || fr.End > len(points) || fr.Start >= fr.End {
				return s.fail("failed-range-malformed", "%+v", fr)
			}
			for i := fr.Start; i < fr.End; i++ {
				failedIdx[i] = true
			}
		}
		okCount := 0
		for i, p := range points {
			id := sl.UUIDIndex(p.Id)
			if failedIdx[i] {
				continue
			}
			okCount++
			s.pts["col1"][id]++
		}
		_, totalsAfter, err := s.inventory()
		if err != nil {
			return s.fail("inventory-error", "%v", err)
		}
		if totalsAfter["col1"] != total+int64(okCount) {
			return s.fail("total-point-count-wrong", "collection total is %d after inserting, want previous %d + %d points of the ranges not reported as failed (failed %+v)", totalsAfter["col1"], total, okCount, failed)
		}
		return nil
	case "delete 1 point":
		if !s.cols["col1"] || len(s.pts["col1"]) == 0 {
			return nil
		}
		col, _ := s.node.GetCollection("alice", "col1")
		col.UserPlan = s.plan
		var stored []int
		for id := range s.pts["col1"] {
			stored = append(stored, id)
		}
		sort.Ints(stored)
		victim := stored[len(stored)/2]
		fp, err := s.node.DeletePoints(col, sl.UUIDs(victim))
		if err != nil || len(fp) != 0 {
			return s.fail("delete-failed", "err=%v failed=%v", err, fp)
		}
		if s.pts["col1"][victim] > 1 {
			// every shard holding a copy deletes it
		}
		delete(s.pts["col1"], victim)
		return nil
	}
	return s.fail("harness-unknown-symbol", "%s", ref.Name)
}

func (s *e2eSys) Check() []seqx.Viol {
	s.obs = sl.Obs{Checks: s.obs.Checks}
	_, totals, err := s.inventory()
	s.obs.Checks++
	if err != nil {
		return s.fail("inventory-error", "%v", err)
	}
	for id := range s.cols {
		var stored int64
		for _, c := range s.pts[id] {
			stored += int64(c)
		}
		if totals[id] != stored {
			return s.fail("total-point-count-wrong", "collection %s reports %d points, %d were stored", id, totals[id], stored)
		}
	}
	if !s.cols["col1"] {
		s.obs.Note("nocol")
		return nil
	}
	col, err := s.node.GetCollection("alice", "col1")
	if err != nil {
		return s.fail("get-collection-failed", "%v", err)
	}
	col.UserPlan = s.plan
	infos, err := s.node.GetShardsInfo(col)
	if err != nil {
		return s.fail("shards-info-failed", "%v", err)
	}
	var counts []int64
	for _, si := range infos {
		s.obs.Checks++
		counts = append(counts, si.PointCount)
		if si.PointCount > s.cfg.MaxShardPointCount {
			return s.fail("shard-point-count-exceeded", "shard %s holds %d points, maximum per shard %d (shard counts %v)", si.Id, si.PointCount, s.cfg.MaxShardPointCount, counts)
		}
	}
	// every stored point is found exactly once, in exactly one shard
	for id, copies := range s.pts["col1"] {
		if copies != 1 {
			continue // the client broke the unique-id precondition
		}
		res, err := s.node.SearchPoints(col, models.SearchRequest{Query: sl.IdQuery(id), Limit: 10})
		s.obs.Checks++
		if err != nil || len(res) != 1 {
			return s.fail("stored-point-not-found-exactly-once", "point %d: %d results, err %v", id, len(res), err)
		}
	}
	s.obs.Note(fmt.Sprint(counts), len(s.cols))
	return nil
}

func (s *e2eSys) Key() string {
	inv, _, _ := s.inventory()
	var ids []int
	for id := range s.pts["col1"] {
		ids = append(ids, id)
	}
	sort.Ints(ids)
	// the futures depend on fill levels and on which ids are stored relative to the next fresh id
	rel := make([]int, len(ids))
	for i, id := range ids {
		rel[i] = s.nextId - id
	}
	return sl.Hash(inv, len(s.cols), rel)
}
func (s *e2eSys) Outcome() string { return s.obs.Outcome() }
func (s *e2eSys) Checks() int64   { return s.obs.Checks }
func (s *e2eSys) Terminal() bool  { return false }
func (s *e2eSys) Close() {
	s.node.Close()
	removeAll(s.root)
}

// ---------------------------------------------------------------------------

type anyJob struct {
	Kind string `json:"kind"`
}

func worker(raw json.RawMessage) (json.RawMessage, error) {
	var k anyJob
	json.Unmarshal(raw, &k)
	if k.Kind == "func" {
		var j fjob
		json.Unmarshal(raw, &j)
		return json.Marshal(funcWorker(j))
	}
	return seqx.Worker(e2eFactory)(raw)
}

func master(cfg *harness.Config, rep *harness.Report) {
	rep.Rule = "(a) every argument combination of the real distributePoints: 0..3 existing shards with point counts from {0,1,max-1,max} x sizes from {0,max-p,max} plus shards already over a limit (count max+1; size max+1, max+4096), batches of 0..6 points of size p / 3p / alternating, maxShardPointCount in {1,2,3}, maxShardSize in {3p+1,4p,100p}, createShard failing at its 1st/2nd call or never; oracle: ranges contiguous, disjoint, covering the batch, no shard over its count or size limit, fresh shards requested exactly for the overflow, equal to the greedy in-order fill. (b) breadth-first search (de-duplicated on shard fill levels) over request histories on a real node: insert 1/2/3(with one stored id)/5, create collection c1/c2/c3, delete 1 point, with MaxShardPointCount in {2,3} and point quota in {4,5}, collection quota 2: totals, per-shard maxima, quota refusals without side effects, every stored point found exactly once"
	rep.Assumptions = []string{"a single point always fits into an empty shard (the property's precondition)", "one server (placement does not depend on routing)"}
	p := pool.New(pool.Options{CPUsPerWorker: 2, JobTimeout: 120 * time.Second})
	if cfg.Replay != "" {
		var r seqx.Replay
		if err := harness.LoadReplay(cfg.Replay, &r); err == nil && len(r.Cfg) > 0 {
			seqx.ReplayOne(rep, p, r)
			return
		}
		var j fjob
		harness.LoadReplay(cfg.Replay, &j)
		res := funcWorker(j)
		for _, v := range res.Viols {
			rep.Violate(harness.Violation{Sig: v.Sig, Detail: v.Detail, Replay: j})
		}
		return
	}
	// (a)
	var jobs []json.RawMessage
	var fjobs []fjob
	for mc := int64(1); mc <= 3; mc++ {
		for sm := 0; sm < 3; sm++ {
			j := fjob{Kind: "func", MaxCount: mc, SizeMode: sm}
			b, _ := json.Marshal(j)
			jobs = append(jobs, b)
			fjobs = append(fjobs, j)
		}
	}
	results, err := p.RunAll(jobs)
	if err != nil {
		panic(err)
	}
	var funcEvals int64
	for i, r := range results {
		if r.Crashed || r.Hung || r.Err != "" {
			rep.Violate(harness.Violation{Sig: "distribute-points-crashed", Detail: fmt.Sprintf("%v %s %s", fjobs[i], r.Err, tailS(r.Stderr)), Replay: fjobs[i]})
			continue
		}
		var res fres
		json.Unmarshal(r.Out, &res)
		funcEvals += res.Evals
		rep.Evaluations += res.Evals
		rep.DistinctNontrivial += res.Nontriv
		for _, o := range res.Outs {
			rep.Outcome(o)
		}
		for _, v := range res.Viols {
			rep.Violate(harness.Violation{Sig: v.Sig, Detail: v.Detail, Replay: fjobs[i]})
		}
	}
	rep.Set("distribute_points_cases", funcEvals)
	// (b)
	depth := 5
	if !cfg.Quick() {
		depth = 7
	}
	alpha := []any{opRef{"insert 1"}, opRef{"insert 2"}, opRef{"insert 3 (one stored id)"}, opRef{"insert 5"}, opRef{"create c1"}, opRef{"create c2"}, opRef{"create c3"}, opRef{"delete 1 point"}}
	var specs []seqx.Spec
	for _, mspc := range []int64{2, 3} {
		for _, q := range []int64{4, 5} {
			specs = append(specs, seqx.Spec{Name: fmt.Sprintf("node/maxShardPoints%d/quota%d", mspc, q), Cfg: e2eCfg{MaxShardPointCount: mspc, Quota: q}, Alphabet: alpha, Depth: depth, Dedup: true, Starts: [][]any{{opRef{"create c1"}}}})
		}
	}
	// plans that allow no collection at all, or exactly one
	creates := []any{opRef{"create c1"}, opRef{"create c2"}, opRef{"insert 1"}}
	specs = append(specs,
		seqx.Spec{Name: "node/maxCollections0", Cfg: e2eCfg{MaxShardPointCount: 2, Quota: 4, SetMaxCols: true, MaxCols: 0}, Alphabet: creates[:2], Depth: 2, Dedup: true},
		seqx.Spec{Name: "node/maxCollections1", Cfg: e2eCfg{MaxShardPointCount: 2, Quota: 4, SetMaxCols: true, MaxCols: 1}, Alphabet: creates, Depth: 3, Dedup: true})
	seqx.Explore(cfg, rep, p, specs)
}

func tailS(s string) string {
	if len(s) > 2000 {
		return s[len(s)-2000:]
	}
	return s
}

func main() {
	harness.Main("C15", worker, master, "model_checking")
}
