package schedlib

import (
	"encoding/json"
	"fmt"
	"os"
	"path/filepath"
	"sort"
	"strings"
)

// RaceLogPrefix is where the race detector of the worker processes writes
// (GORACE=log_path=...).
func RaceLogPrefix() string {
	d := os.Getenv("VERIF_SCRATCH")
	if d == "" {
		d = "/dev/shm"
	}
	return filepath.Join(d, "racelog")
}

// RaceEnv is the environment for -race workers.
func RaceEnv() []string {
	return []string{"GORACE=log_path=" + RaceLogPrefix() + " halt_on_error=0"}
}

// RaceReport is one distinct data race (by the repository frames of its two stacks).
type RaceReport struct {
	Key    string `json:"key"`
	Count  int    `json:"count"`
	Sample string `json:"sample"`
}

// CollectRaces parses the race logs and groups the reports.
func CollectRaces() []RaceReport {
	files, _ := filepath.Glob(RaceLogPrefix() + ".*")
	byKey := map[string]*RaceReport{}
	for _, f := range files {
		b, err := os.ReadFile(f)
		if err != nil {
			continue
		}
		for _, block := range strings.Split(string(b), "==================") {
			if !strings.Contains(block, "WARNING: DATA RACE") {
				continue
			}
			var frames []string
			for _, l := range strings.Split(block, "\n") {
				l = strings.TrimSpace(l)
				if strings.HasPrefix(l, "github.com/semafind/semadb/") && !strings.Contains(l, "zzverif") {
					if i := strings.LastIndex(l, "("); i > 0 {
						l = l[:i]
					}
					l = strings.TrimPrefix(l, "github.com/semafind/semadb/")
					if len(frames) == 0 || frames[len(frames)-1] != l {
						frames = append(frames, l)
					}
				}
			}
			if len(frames) > 4 {
				frames = frames[:4]
			}
			key := strings.Join(frames, " | ")
			if key == "" {
				key = "(no repository frame: harness-internal)"
			}
			r := byKey[key]
			if r == nil {
				s := block
				if len(s) > 3000 {
					s = s[:3000]
				}
				r = &RaceReport{Key: key, Sample: s}
				byKey[key] = r
			}
			r.Count++
		}
	}
	var out []RaceReport
	for _, r := range byKey {
		out = append(out, *r)
	}
	sort.Slice(out, func(i, j int) bool { return out[i].Key < out[j].Key })
	return out
}

// WriteRaceFile stores the result of a race pass next to the evidence.
func WriteRaceFile(outDir, property string, programs, runs int, races []RaceReport) string {
	os.MkdirAll(filepath.Join(outDir, "evidence"), 0o755)
	p := filepath.Join(outDir, "evidence", property+".race.json")
	b, _ := json.MarshalIndent(map[string]any{"property_id": property, "programs": programs, "free_running_executions": runs, "distinct_races": len(races), "races": races,
		"note": "separate free-running pass of the schedx thread bodies under the Go race detector (a cooperative scheduler's hand-offs are happens-before edges and would blind it); diagnostic, not a verdict"}, "", " ")
	os.WriteFile(p, b, 0o644)
	return p
}

// LoadRaceSummary returns a short summary of the last race pass for the evidence file.
func LoadRaceSummary(outDir, property string) any {
	b, err := os.ReadFile(filepath.Join(outDir, "evidence", property+".race.json"))
	if err != nil {
		return "race pass not run in this tier (thorough runs it: ./check.sh " + property + " --tier thorough)"
	}
	var m map[string]any
	json.Unmarshal(b, &m)
	keys := []string{}
	if rs, ok := m["races"].([]any); ok {
		for _, r := range rs {
			if rm, ok := r.(map[string]any); ok {
				keys = append(keys, fmt.Sprint(rm["key"]))
			}
		}
	}
	return map[string]any{"free_running_executions": m["free_running_executions"], "distinct_races": m["distinct_races"], "race_sites": keys}
}
