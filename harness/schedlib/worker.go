// Package schedlib is the worker side of the schedx engine (it imports the
// overlaid vsched package, so it only builds with the overlay).
package schedlib

import (
	"encoding/json"
	"fmt"
	"os"
	"time"

	"github.com/semafind/semadb/zzverif/vsched"
	"semaverif/engine/schedx"
)

// V is a violation found while running one schedule.
type V struct {
	Sig    string
	Detail string
}

// RunFn executes the program under the given choice prefix (default policy
// afterwards) and returns the trace, the violations its monitors found and a
// digest of the observable outcome.
type RunFn func(program json.RawMessage, prefix []string) (tr *vsched.Trace, viols []V, outcome string)

// Confirmations is how often a violating schedule is re-executed before its
// violations are believed (signatures that do not show again are counted as
// unconfirmed, never reported).
var Confirmations = 2

func seenSig(confirmed map[string]bool, viols []V) bool {
	for _, v := range viols {
		if !confirmed[v.Sig] {
			return false
		}
	}
	return true
}

// MaxPerJob bounds the executions a worker does for one job; the unexplored
// frontier goes back to the master.
var MaxPerJob = 3000

// Handler returns the pool handler.
func Handler(run RunFn) func(raw json.RawMessage) (json.RawMessage, error) {
	return func(raw json.RawMessage) (json.RawMessage, error) {
		var j schedx.Job
		if err := json.Unmarshal(raw, &j); err != nil {
			return nil, err
		}
		var res schedx.Result
		outcomes := map[string]bool{}
		confirmed := map[string]bool{}
		stack := [][]string{j.Prefix}
		for len(stack) > 0 {
			if int(res.Executions) >= MaxPerJob || (!j.Subtree && res.Executions >= 1) {
				break
			}
			prefix := stack[len(stack)-1]
			stack = stack[:len(stack)-1]
			t0 := time.Now()
			tr, viols, outcome := run(j.Program, prefix)
			if os.Getenv("VERIF_TRACE") != "" {
				fmt.Fprintf(os.Stderr, "@@T exec %d steps=%d snapshots=%d settle=%v took=%v deadlock=%v unsettled=%v diverged=%q\n", res.Executions, len(tr.Steps), tr.Snapshots, time.Duration(tr.SettleNs), time.Since(t0), tr.Deadlock, tr.Unsettled, tr.Diverged)
			}
			// inherent nondeterminism of the code under test (Go map iteration
			// order) can make a recorded prefix unreplayable; retry, the matching
			// order comes up again quickly
			for retry := 0; tr.Diverged != "" && retry < 12; retry++ {
				if res.DivSample == "" {
					res.DivSample = fmt.Sprintf("(resolved by retry) prefix %v: %s", prefix, tr.Diverged)
				}
				tr, viols, outcome = run(j.Program, prefix)
				res.Retries++
			}
			res.Executions++
			res.Steps += int64(len(tr.Steps))
			if outcome != "" {
				outcomes[outcome] = true
			}
			if tr.Diverged != "" {
				// never a verdict: the same prefix produced a different enabled set
				res.Diverged++
				res.DivSample = fmt.Sprintf("prefix %v: %s", prefix, tr.Diverged)
				continue
			}
			if tr.Horizon {
				res.Horizon++
			}
			if tr.Unsettled {
				res.Unsettled++
				viols = append(viols, V{"scheduler-could-not-settle", "a released transition neither parked, finished nor blocked within the patience window\n" + clip(tr.Dump, 6000)})
			}
			if tr.Deadlock {
				viols = append(viols, V{"deadlock", fmt.Sprintf("no transition enabled while %v are unfinished\n%s", tr.Stuck, clip(tr.Dump, 12000))})
			}
			if p := vsched.Preemptions(tr); p > res.MaxPreempt {
				res.MaxPreempt = p
			}
			if len(viols) > 0 && Confirmations > 0 && !seenSig(confirmed, viols) {
				// believe a violation only if the same schedule shows it again
				full := tr.Choices()
				keep := map[string]bool{}
				for _, v := range viols {
					keep[v.Sig] = true
				}
				for c := 0; c < Confirmations; c++ {
					tr2, viols2, _ := run(j.Program, full)
					again := map[string]bool{}
					if tr2.Diverged == "" {
						for _, v := range viols2 {
							again[v.Sig] = true
						}
						if tr2.Deadlock {
							again["deadlock"] = true
						}
						if tr2.Unsettled {
							again["scheduler-could-not-settle"] = true
						}
					}
					for sig := range keep {
						if !again[sig] {
							delete(keep, sig)
						}
					}
				}
				var kept []V
				for _, v := range viols {
					if keep[v.Sig] {
						kept = append(kept, v)
						confirmed[v.Sig] = true
					} else {
						res.Unconfirmed++
					}
				}
				viols = kept
			}
			for _, v := range viols {
				if len(res.Viols) < 20 {
					res.Viols = append(res.Viols, schedx.Viol{Sig: v.Sig, Detail: v.Detail, Choices: tr.Choices()})
				}
			}
			if res.SampleTrace == nil {
				for _, s := range tr.Steps {
					res.SampleTrace = append(res.SampleTrace, s.Chosen+":"+s.Label)
				}
			}
			stack = append(stack, vsched.Children(tr, len(prefix), j.Bound)...)
		}
		res.Children = stack
		for o := range outcomes {
			res.Outcomes = append(res.Outcomes, o)
		}
		return json.Marshal(res)
	}
}

func clip(s string, n int) string {
	if len(s) > n {
		return s[:n] + "\n…"
	}
	return s
}
