// C03 — graph (Vamana) vector search returns only live, in-filter points,
// correctly ranked; exact in the two regimes the property names.
package main

import (
	"encoding/json"
	"fmt"
	"strings"
	"sort"
	"time"

	"github.com/semafind/semadb/models"
	sl "semaverif/harness/shardlib"

	"semaverif/engine/harness"
	"semaverif/engine/pool"
	"semaverif/engine/seqx"
)

const prop = "vec"

type cfgT struct {
	Inst   sl.InstCfg `json:"inst"`
	Metric string     `json:"metric"`
	Thirty bool       `json:"thirty"`
}

func f32(v float32) *float32 { return &v }
func ptr[T any](v T) *T      { return &v }

func symbols(metric string) *sl.Symbols {
	st, _ := sl.VectorPool(metric)
	d := func(i int) sl.Doc { return sl.Doc{prop: st[i], "cat": fmt.Sprintf("c%d", i%2)} }
	syms := sl.NewSymbols(
		sl.Op{Name: "ins1", Kind: "ins", Ids: []int{1}, Docs: []sl.Doc{d(0)}},
		sl.Op{Name: "ins2,3", Kind: "ins", Ids: []int{2, 3}, Docs: []sl.Doc{d(1), d(2)}},
		sl.Op{Name: "ins4,5,6(5 without vector)", Kind: "ins", Ids: []int{4, 5, 6}, Docs: []sl.Doc{d(3), {"cat": "c1"}, d(5)}},
		sl.Op{Name: "ins7(dup of 1)", Kind: "ins", Ids: []int{7}, Docs: []sl.Doc{d(0)}},
		sl.Op{Name: "upd1(move)", Kind: "upd", Ids: []int{1}, Docs: []sl.Doc{{prop: st[4]}}},
		sl.Op{Name: "upd2,3(move both)", Kind: "upd", Ids: []int{2, 3}, Docs: []sl.Doc{{prop: st[6]}, {prop: st[7]}}},
		sl.Op{Name: "upd1(remove vector)", Kind: "upd", Ids: []int{1}, Docs: []sl.Doc{{prop: "_delete"}}},
		sl.Op{Name: "upd1,1(move then remove vector)", Kind: "upd", Ids: []int{1, 1}, Docs: []sl.Doc{{prop: st[5]}, {prop: "_delete"}}},
		sl.Op{Name: "upd1,5(add vector)", Kind: "upd", Ids: []int{1, 5}, Docs: []sl.Doc{{prop: st[0]}, {prop: st[3]}}},
		sl.Op{Name: "queries", Kind: "queries"},
		sl.Op{Name: "del1", Kind: "del", Ids: []int{1}},
		sl.Op{Name: "del2,3", Kind: "del", Ids: []int{2, 3}},
		sl.Op{Name: "ins1(again, elsewhere)", Kind: "ins", Ids: []int{1}, Docs: []sl.Doc{d(6)}},
		// batches whose storage transaction fails to commit after every index has done its work
		sl.Op{Name: "ins8 !commit-fails", Kind: "ins", Ids: []int{8}, Docs: []sl.Doc{d(7)}},
		sl.Op{Name: "upd1(move) !commit-fails", Kind: "upd", Ids: []int{1}, Docs: []sl.Doc{{prop: st[4]}}},
		sl.Op{Name: "del1 !commit-fails", Kind: "del", Ids: []int{1}},
	)
	// 30 lattice points (ids 101..130) so that the collection crosses searchSize-1
	thirty := sl.Op{Name: "ins30", Kind: "ins"}
	dim := int(sl.DimOf(metric))
	lat := sl.Lattice(30, dim)
	for i := 0; i < 30; i++ {
		v := lat[i]
		if metric != models.DistanceEuclidean && metric != models.DistanceDot {
			v = st[i%len(st)]
		}
		thirty.Ids = append(thirty.Ids, 101+i)
		thirty.Docs = append(thirty.Docs, sl.Doc{prop: v, "cat": fmt.Sprintf("c%d", i%2)})
	}
	syms.Add(thirty)
	syms.Add(twoHundred(dim))
	return syms
}

// twoHundred: 225 lattice points (15 x 15) in an order that separates node-id
// order from geometry.  Ranked by distance from the origin: the 25 farthest come
// first (ids 1001..1025, the lowest node ids), then everything else by rank.
// ringIds are 35 points of ranks 90..124: outside the 75 nearest to the origin.
func twoHundred(dim int) sl.Op {
	op := sl.Op{Name: "ins225(far points first)", Kind: "ins"}
	order, _ := bigOrder()
	lat := sl.Lattice(225, dim)
	for k, li := range order {
		op.Ids = append(op.Ids, 1001+k)
		op.Docs = append(op.Docs, sl.Doc{prop: lat[li], "cat": fmt.Sprintf("c%d", li%2)})
	}
	return op
}

// bigOrder returns the lattice indices in batch order and the point ids of the ring.
func bigOrder() (order []int, ring []int) {
	type pr struct {
		li int
		d  int
	}
	var ps []pr
	for i := 0; i < 225; i++ {
		x, y := i%15, i/15
		ps = append(ps, pr{i, x*x + y*y})
	}
	sort.SliceStable(ps, func(a, b int) bool { return ps[a].d < ps[b].d })
	for k := 200; k < 225; k++ { // the 25 farthest first
		order = append(order, ps[k].li)
	}
	for k := 0; k < 200; k++ {
		order = append(order, ps[k].li)
		if k >= 90 && k < 125 {
			ring = append(ring, 1001+25+k)
		}
	}
	return
}

func universe() []int {
	u := []int{1, 2, 3, 4, 5, 6, 7}
	for i := 0; i < 30; i++ {
		u = append(u, 101+i)
	}
	return u
}

func factory(raw json.RawMessage) (seqx.System, error) {
	var c cfgT
	if err := json.Unmarshal(raw, &c); err != nil {
		return nil, err
	}
	in, err := sl.NewInst(c.Inst)
	if err != nil {
		return nil, err
	}
	_, queries := sl.VectorPool(c.Metric)
	params := *c.Inst.Schema[prop].VectorVamana
	all := sl.IdQuery(universe()...)
	filters := []sl.NamedFilter{{Name: "none"}, {Name: "ids{9}(empty)", Q: ptr(sl.IdQuery(9))}, {Name: "ids{2}", Q: ptr(sl.IdQuery(2))}, {Name: "all", Q: &all}, {Name: "ids{1,5,104}", Q: ptr(sl.IdQuery(1, 5, 104))},
		{Name: "cat=c1", Q: &models.Query{Property: "cat", String: &models.SearchStringOptions{Value: "c1", Operator: models.OperatorEquals}}}}
	return &sl.ShardSystem{In: in, M: sl.NewModel(c.Inst.Schema, in.Cfg.MaxPointSize), Syms: symbols(c.Metric),
		Battery: func(s *sl.ShardSystem) {
			qc := sl.VamanaQueryCfg{Prop: prop, Params: params, Queries: queries, Limits: []int{1, 3, 75}, SearchSizes: []int{25, 75}, Weights: []*float32{nil, f32(0.5), f32(-1), f32(0)}, Filters: filters, InsertOnly: s.InsertOnly()}
			s.In.VamanaBattery(&s.Obs, s.M, qc)
			// filters that fill the search window exactly (and one below / above it), limit = window:
			// the boundary of the exactness claim "filters with at most searchSize members"
			seq := func(a, b int) []int {
				var out []int
				for i := a; i <= b; i++ {
					out = append(out, i)
				}
				return out
			}
			wf := []sl.NamedFilter{
				{Name: "ids{106..130}(=window)", Q: ptr(sl.IdQuery(seq(106, 130)...))}, {Name: "ids{101..125}(=window)", Q: ptr(sl.IdQuery(seq(101, 125)...))},
				{Name: "ids{107..130}(window-1)", Q: ptr(sl.IdQuery(seq(107, 130)...))}, {Name: "ids{105..130}(window+1)", Q: ptr(sl.IdQuery(seq(105, 130)...))},
			}
			s.In.VamanaBattery(&s.Obs, s.M, sl.VamanaQueryCfg{Prop: prop, Params: params, Queries: queries, Limits: []int{25}, SearchSizes: []int{25}, Weights: []*float32{nil}, Filters: wf, InsertOnly: s.InsertOnly()})
			// a query search size above the index's own, a filter between the two sizes whose nearest
			// members lie outside the unfiltered window, in a collection larger than the window
			if _, has := s.M.Docs[1001]; has {
				_, ring := bigOrder()
				ids := append(seq(1001, 1025), ring...)
				bf := []sl.NamedFilter{{Name: "25 far (lowest node ids) + 35 ring points", Q: ptr(sl.IdQuery(ids...))}}
				s.In.VamanaBattery(&s.Obs, s.M, sl.VamanaQueryCfg{Prop: prop, Params: params, Queries: queries[:1], Limits: []int{10, 60}, SearchSizes: []int{75}, Weights: []*float32{nil}, Filters: bf, InsertOnly: s.InsertOnly()})
			}
			s.In.GraphCheck(&s.Obs, s.M, prop, params)
		}}, nil
}

type quant struct {
	name string
	q    *models.Quantizer
}

func master(cfg *harness.Config, rep *harness.Report) {
	rep.Rule = "all write histories up to the depth (insert 1-3 vectors incl. duplicates and vectorless points, move, remove/add the field, the same point twice in one update batch, a round of searches between two batches, delete, re-insert with node-id reuse), from the empty shard and from 30 lattice points, x metric {euclidean, dot, cosine, haversine, hamming} x quantiser {none, binary fixed, binary learned(trigger 3), product (2x2, trigger 3)}; after every batch 4 queries x limit {1,3,75} x searchSize {25,75} x weight {nil,0.5,-1,0} x pre-filter {none, empty, one point, all, mixed live/vectorless/absent ids, string filter}, plus limit = searchSize = 25 with filters of 24 / 25 / 26 members over the 30-point start state, plus an index built with searchSize 25 / degreeBound 32 holding 225 points and queried with searchSize 75 and a 60-member filter whose nearest members lie outside the unfiltered window: only live in-filter points with the field, no duplicate, never the entry node, <= limit, sorted, distance = index distance, hybrid = -weight*distance; exact k-NN for insert-only histories with <= min(degreeBound, searchSize-1) vectors and for filters with <= searchSize members. Histories are not merged (the warm graph cache is state outside the buckets)"
	rep.Assumptions = []string{"the entry vector is random (math/rand/v2): oracles are independent of graph shape", "product quantiser with trigger threshold 3 (HTTP minimum 1000), 2 sub-vectors x 2 centroids; centroids and centroid ids read back from the bucket and checked for consistency", "runtime.NumCPU()-1 = 1 insert worker (CPU affinity 2)"}
	p := pool.New(pool.Options{CPUsPerWorker: 2, JobTimeout: 60 * time.Second})
	if cfg.Replay != "" {
		var r seqx.Replay
		if err := harness.LoadReplay(cfg.Replay, &r); err != nil {
			panic(err)
		}
		seqx.ReplayOne(rep, p, r)
		return
	}
	thr := float32(0.5)
	none := quant{"none", nil}
	fixed := quant{"binfixed", &models.Quantizer{Type: models.QuantizerBinary, Binary: &models.BinaryQuantizerParamaters{Threshold: &thr, DistanceMetric: models.DistanceHamming}}}
	learned := quant{"binlearned", &models.Quantizer{Type: models.QuantizerBinary, Binary: &models.BinaryQuantizerParamaters{TriggerThreshold: 3, DistanceMetric: models.DistanceHamming}}}
	// trigger threshold 3 instead of the HTTP layer's minimum of 1000: same code path, training reachable within the bound
	product := quant{"product", &models.Quantizer{Type: models.QuantizerProduct, Product: &models.ProductQuantizerParameters{NumCentroids: 2, NumSubVectors: 2, TriggerThreshold: 3}}}
	type combo struct {
		metric string
		q      quant
	}
	combos := []combo{{models.DistanceEuclidean, product}, {models.DistanceEuclidean, none}, {models.DistanceHamming, none}, {models.DistanceCosine, learned}, {models.DistanceDot, fixed}, {models.DistanceHaversine, none}}
	depth := 3
	if !cfg.Quick() {
		depth = 4
		combos = append(combos, combo{models.DistanceEuclidean, learned}, combo{models.DistanceCosine, none}, combo{models.DistanceDot, none}, combo{models.DistanceJaccard, none}, combo{models.DistanceEuclidean, fixed}, combo{models.DistanceDot, product}, combo{models.DistanceCosine, product})
	}
	alpha := []string{"ins1", "ins2,3", "ins4,5,6(5 without vector)", "ins7(dup of 1)", "upd1(move)", "upd2,3(move both)", "upd1(remove vector)", "upd1,1(move then remove vector)", "upd1,5(add vector)", "queries", "del1", "del2,3", "ins1(again, elsewhere)"}
	var specs []seqx.Spec
	if cfg.Extra["hugeonly"] != "" {
		combos = nil
	}
	// huge magnitudes (distances that overflow to +Inf): plain euclidean, small alphabet
	combos = append(combos, combo{"euclidean1", none})
	for _, c := range combos {
		schema := models.IndexSchema{
			prop:  {Type: models.IndexTypeVectorVamana, VectorVamana: &models.IndexVectorVamanaParameters{VectorSize: sl.DimOf(c.metric), DistanceMetric: strings.TrimRight(c.metric, "0123456789"), SearchSize: 75, DegreeBound: 64, Alpha: 1.2, Quantizer: c.q.q}},
			"cat": {Type: models.IndexTypeString, String: &models.IndexStringParameters{CaseSensitive: true}},
		}
		syms := symbols(c.metric)
		for _, inst := range []struct {
			name string
			cfg  sl.InstCfg
			d    int
		}{
			{"warm", sl.InstCfg{Backend: "bbolt", CacheSize: -1, Schema: schema, Proxy: true}, depth},
			{"cold", sl.InstCfg{Backend: "bbolt", CacheSize: -1, ReopenEachOp: true, Schema: schema, Proxy: true}, depth - 1},
		} {
			cc := cfgT{Inst: inst.cfg, Metric: c.metric}
			specs = append(specs, seqx.Spec{Name: fmt.Sprintf("%s/%s/%s", c.metric, c.q.name, inst.name), Cfg: cc, Alphabet: syms.Refs(alpha...), Depth: inst.d})
			if inst.name == "warm" {
				specs = append(specs, seqx.Spec{Name: fmt.Sprintf("%s/%s/%s/from30", c.metric, c.q.name, inst.name), Cfg: cc, Alphabet: syms.Refs(alpha...), Depth: inst.d - 1, Starts: [][]any{syms.Refs("ins30")}})
			}
			if inst.name == "warm" && (c.q.name == none.name || c.q.name == product.name) {
				// failing commits: a small alphabet of its own (the failing batches must leave the warm caches as they were)
				failing := []string{"ins1", "ins2,3", "queries", "ins8 !commit-fails", "upd1(move) !commit-fails", "del1 !commit-fails"}
				specs = append(specs, seqx.Spec{Name: fmt.Sprintf("%s/%s/%s/failing-commits", c.metric, c.q.name, inst.name), Cfg: cc, Alphabet: syms.Refs(failing...), Depth: inst.d, Starts: [][]any{{}, syms.Refs("ins30")}})
			}
		}
	}
	// an index built with the smallest search size and degree bound, 225 points, queried with the largest search size
	{
		schema := models.IndexSchema{
			prop:  {Type: models.IndexTypeVectorVamana, VectorVamana: &models.IndexVectorVamanaParameters{VectorSize: sl.DimOf(models.DistanceEuclidean), DistanceMetric: models.DistanceEuclidean, SearchSize: 25, DegreeBound: 32, Alpha: 1.2}},
			"cat": {Type: models.IndexTypeString, String: &models.IndexStringParameters{CaseSensitive: true}},
		}
		syms := symbols(models.DistanceEuclidean)
		for _, inst := range []struct {
			name string
			cfg  sl.InstCfg
		}{
			{"warm", sl.InstCfg{Backend: "bbolt", CacheSize: -1, Schema: schema, Proxy: true}},
			{"cold", sl.InstCfg{Backend: "bbolt", CacheSize: -1, ReopenEachOp: true, Schema: schema, Proxy: true}},
		} {
			specs = append(specs, seqx.Spec{Name: "euclidean/none/index-searchSize-25/" + inst.name + "/from225", Cfg: cfgT{Inst: inst.cfg, Metric: models.DistanceEuclidean}, Alphabet: syms.Refs("ins1", "del2,3", "upd1(move)"), Depth: 1, Starts: [][]any{syms.Refs("ins225(far points first)")}})
		}
	}
	seqx.Explore(cfg, rep, p, specs)
}

func main() {
	harness.Main("C03", seqx.Worker(factory), master, "model_checking")
}
