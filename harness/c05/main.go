// C05 — text search matches, ranks and limits by tf-idf over the current corpus.
package main

import (
	"encoding/json"
	"fmt"
	"strings"
	"time"

	"github.com/semafind/semadb/models"
	sl "semaverif/harness/shardlib"

	"semaverif/engine/harness"
	"semaverif/engine/pool"
	"semaverif/engine/seqx"
)

const prop = "txt"

type cfgT struct {
	Inst sl.InstCfg `json:"inst"`
}

func schema() models.IndexSchema {
	return models.IndexSchema{
		prop:  {Type: models.IndexTypeText, Text: &models.IndexTextParameters{Analyser: "standard"}},
		"n.t": {Type: models.IndexTypeText, Text: &models.IndexTextParameters{Analyser: "standard"}},
	}
}

var texts = []string{
	"the quick brown fox",
	"quick quick dog",
	"the and of",       // analyses to zero tokens
	"Quick café zebra", // mixed case, unicode
	"fox fox fox jumps over the lazy dog",
	"... !!! ???", // punctuation only
}

func symbols() *sl.Symbols {
	t := func(i int) sl.Doc { return sl.Doc{prop: texts[i], "n": sl.Doc{"t": texts[(i+1)%len(texts)]}} }
	six := sl.Op{Name: "ins1..6", Kind: "ins"}
	for i := 0; i < 6; i++ {
		six.Ids = append(six.Ids, i+1)
		six.Docs = append(six.Docs, t(i))
	}
	return sl.NewSymbols(
		six,
		sl.Op{Name: "ins1(fox)", Kind: "ins", Ids: []int{1}, Docs: []sl.Doc{t(0)}},
		sl.Op{Name: "ins2(quick dog)", Kind: "ins", Ids: []int{2}, Docs: []sl.Doc{t(1)}},
		sl.Op{Name: "ins3(stopwords)", Kind: "ins", Ids: []int{3}, Docs: []sl.Doc{t(2)}},
		sl.Op{Name: "ins4,5", Kind: "ins", Ids: []int{4, 5}, Docs: []sl.Doc{t(3), t(4)}},
		// a long document: one term 300 times (more than fits a byte), another 100 times
		sl.Op{Name: "ins8(long: 300 x quick, 2 x zebra)", Kind: "ins", Ids: []int{8}, Docs: []sl.Doc{{prop: strings.Repeat("quick ", 300) + "zebra zebra"}}},
		sl.Op{Name: "upd3(long: 256 x fox)", Kind: "upd", Ids: []int{3}, Docs: []sl.Doc{{prop: strings.Repeat("fox ", 256) + "dog"}}},
		sl.Op{Name: "ins7(no text)", Kind: "ins", Ids: []int{7}, Docs: []sl.Doc{{"other": "quick"}}},
		sl.Op{Name: "upd1(rewrite)", Kind: "upd", Ids: []int{1}, Docs: []sl.Doc{{prop: "lazy dog dog"}}},
		sl.Op{Name: "upd1(same words twice)", Kind: "upd", Ids: []int{1}, Docs: []sl.Doc{{prop: "the quick brown fox the quick brown fox"}}},
		sl.Op{Name: "upd2(blank out)", Kind: "upd", Ids: []int{2}, Docs: []sl.Doc{{prop: "of the !!!"}}},
		sl.Op{Name: "upd2(empty string)", Kind: "upd", Ids: []int{2}, Docs: []sl.Doc{{prop: ""}}},
		sl.Op{Name: "upd4(whitespace only)", Kind: "upd", Ids: []int{4}, Docs: []sl.Doc{{prop: " \t  "}}},
		// the same point twice in one batch, blanked both times (whichever arrives first: the outcome
		// is a blank document, removed from the corpus exactly once)
		sl.Op{Name: "upd2,2(blank out twice)", Kind: "upd", Ids: []int{2, 2}, Docs: []sl.Doc{{prop: "of the !!!"}, {prop: ""}}},
		sl.Op{Name: "upd3(give text)", Kind: "upd", Ids: []int{3}, Docs: []sl.Doc{{prop: "zebra quick"}}},
		sl.Op{Name: "upd1(_delete)", Kind: "upd", Ids: []int{1}, Docs: []sl.Doc{{prop: "_delete", "n": "_delete"}}},
		sl.Op{Name: "upd7(add text)", Kind: "upd", Ids: []int{7, 1}, Docs: []sl.Doc{{prop: "quick fox"}, {prop: "brown brown"}}},
		// rewrites that LOOK unchanged: equal under Unicode case folding, different after the analyser's
		// lower-casing (long s / s, micro sign / Greek mu, final / non-final sigma written the other way), the
		// very same text, case only, one letter
		sl.Op{Name: "ins9(Congreſs 5µm ΟΔΟΣ)", Kind: "ins", Ids: []int{9}, Docs: []sl.Doc{{prop: "Congreſs 5µm ΟΔΟΣ", "n": sl.Doc{"t": "Congreſs 5µm ΟΔΟΣ"}}}},
		sl.Op{Name: "upd9(fold-equal: CONGRESS 5ΜM οδοσ)", Kind: "upd", Ids: []int{9}, Docs: []sl.Doc{{prop: "CONGRESS 5ΜM οδοσ", "n": sl.Doc{"t": "CONGRESS 5ΜM οδοσ"}}}},
		sl.Op{Name: "upd9(the same text)", Kind: "upd", Ids: []int{9}, Docs: []sl.Doc{{prop: "Congreſs 5µm ΟΔΟΣ"}}},
		sl.Op{Name: "upd9(case only)", Kind: "upd", Ids: []int{9}, Docs: []sl.Doc{{prop: "CONGREſS 5µM οδοσ"}}},
		sl.Op{Name: "upd9(one letter)", Kind: "upd", Ids: []int{9}, Docs: []sl.Doc{{prop: "Congreſs 5µn ΟΔΟΣ"}}},
		sl.Op{Name: "del1", Kind: "del", Ids: []int{1}},
		sl.Op{Name: "del2,4", Kind: "del", Ids: []int{2, 4}},
	)
}

func f32(v float32) *float32 { return &v }
func ptr[T any](v T) *T      { return &v }

func battery(s *sl.ShardSystem) {
	queries := []string{"quick", "quick fox", "QUICK", "fox fox", "the", "zebra", "quick zebra", "café", "dog lazy jumps", "quick, brown... fox!", "congress", "congreſs 5µm", "5μm οδοσ", "οδος 5µn"}
	filters := []struct {
		name string
		q    *models.Query
	}{{"none", nil}, {"ids{1,2,5}", ptr(sl.IdQuery(1, 2, 5))}, {"ids{9}", ptr(sl.IdQuery(9))}}
	for _, p := range []string{prop, "n.t"} {
		tr := sl.BuildTextRef(s.M, p)
		for _, qs := range queries {
			for _, op := range []string{models.OperatorContainsAll, models.OperatorContainsAny} {
				for _, limit := range []int{1, 2, 75} {
					for _, w := range []*float32{nil, f32(2), f32(-1)} {
						if w != nil && limit != 2 {
							continue
						}
						for _, f := range filters {
							if p != prop && (f.q != nil || limit == 1) {
								continue
							}
							opt := models.SearchTextOptions{Value: qs, Operator: op, Limit: limit, Weight: w, Filter: f.q}
							var fset sl.IdSet
							if f.q != nil {
								fset, _ = sl.EvalFilter(s.M, *f.q)
							}
							desc := fmt.Sprintf("%s %s %q limit %d weight %v filter %s", p, op, qs, limit, wstr(w), f.name)
							res, err := s.In.Search(models.Query{Property: p, Text: &opt}, nil, 0)
							if err != nil {
								s.Obs.Checks++
								s.Obs.Fail("text-search-error", "%s: %v", desc, err)
								continue
							}
							sl.TextCheck(&s.Obs, tr, opt, fset, res, desc)
						}
					}
				}
			}
		}
	}
}

func wstr(w *float32) string {
	if w == nil {
		return "nil"
	}
	return fmt.Sprint(*w)
}

func factory(raw json.RawMessage) (seqx.System, error) {
	var c cfgT
	if err := json.Unmarshal(raw, &c); err != nil {
		return nil, err
	}
	in, err := sl.NewInst(c.Inst)
	if err != nil {
		return nil, err
	}
	return &sl.ShardSystem{In: in, M: sl.NewModel(c.Inst.Schema, in.Cfg.MaxPointSize), Syms: symbols(), Battery: battery, KeyFn: sl.FullKey}, nil
}

func master(cfg *harness.Config, rep *harness.Report) {
	rep.Rule = "breadth-first search over histories that insert, rewrite, blank out (stop words / punctuation only), give text to, remove (_delete), rewrite to texts that look unchanged (identical, case only, one letter, equal under Unicode case folding but different after lower-casing) and delete text fields (top-level and nested property), from the empty corpus and from a 6-document corpus; after every batch 14 queries (multi-term, terms that differ only under Unicode case folding, repeated terms, stop-word-only, mixed case, unicode, punctuation) x {containsAll, containsAny} x limit {1,2,75} x weight {nil,2,-1} x pre-filter {none, subset, empty}: match set exact, scores = sum tf*log10(N/(df+1)) recomputed from the model after every batch, order, top-limit cut, hybrid = weight*score"
	rep.Assumptions = []string{"bleve's standard analyser is trusted (the reference calls the same analyser)", "score tolerance 1e-4 relative (float32 accumulation in map order)"}
	p := pool.New(pool.Options{CPUsPerWorker: 2, JobTimeout: 60 * time.Second})
	syms := symbols()
	if cfg.Replay != "" {
		var r seqx.Replay
		if err := harness.LoadReplay(cfg.Replay, &r); err != nil {
			panic(err)
		}
		seqx.ReplayOne(rep, p, r)
		return
	}
	depth := 3
	if !cfg.Quick() {
		depth = 5
	}
	alpha := []string{"ins1(fox)", "ins2(quick dog)", "ins3(stopwords)", "ins4,5", "ins7(no text)", "upd1(rewrite)", "upd1(same words twice)", "upd2(blank out)", "upd2(empty string)", "upd4(whitespace only)", "upd2,2(blank out twice)", "upd3(give text)", "upd1(_delete)", "upd7(add text)", "del1", "del2,4"}
	var specs []seqx.Spec
	for _, be := range []struct {
		name   string
		cfg    sl.InstCfg
		depth  int
		starts [][]any
	}{
		{"bbolt/warm", sl.InstCfg{Backend: "bbolt", CacheSize: -1, Schema: schema(), Proxy: true}, depth, [][]any{{}, syms.Refs("ins1..6")}},
		{"bbolt/reopen", sl.InstCfg{Backend: "bbolt", CacheSize: 0, ReopenEachOp: true, Schema: schema(), Proxy: true}, depth - 1, [][]any{{}}},
		{"mem", sl.InstCfg{Backend: "mem", CacheSize: -1, Schema: schema()}, depth - 1, [][]any{{}, syms.Refs("ins1..6")}},
	} {
		specs = append(specs, seqx.Spec{Name: be.name, Cfg: cfgT{be.cfg}, Alphabet: syms.Refs(alpha...), Depth: be.depth, Dedup: true, Starts: be.starts})
	}
	// long documents (a term more often than fits a byte): depth 2 over a reduced alphabet, warm and reopened
	long := []string{"ins8(long: 300 x quick, 2 x zebra)", "upd3(long: 256 x fox)", "ins2(quick dog)", "upd1(rewrite)", "del2,4", "upd7(add text)"}
	specs = append(specs,
		seqx.Spec{Name: "bbolt/warm/long", Cfg: cfgT{sl.InstCfg{Backend: "bbolt", CacheSize: -1, Schema: schema(), Proxy: true}}, Alphabet: syms.Refs(long...), Depth: 2, Dedup: true, Starts: [][]any{{}, syms.Refs("ins1..6")}},
		seqx.Spec{Name: "bbolt/reopen/long", Cfg: cfgT{sl.InstCfg{Backend: "bbolt", CacheSize: 0, ReopenEachOp: true, Schema: schema(), Proxy: true}}, Alphabet: syms.Refs(long...), Depth: 2, Dedup: true, Starts: [][]any{syms.Refs("ins1..6")}})
	// rewrites that look unchanged (fold-equal, identical, case only, one letter), warm and reopened
	same := []string{"ins9(Congreſs 5µm ΟΔΟΣ)", "upd9(fold-equal: CONGRESS 5ΜM οδοσ)", "upd9(the same text)", "upd9(case only)", "upd9(one letter)", "ins2(quick dog)"}
	specs = append(specs,
		seqx.Spec{Name: "bbolt/warm/looks-unchanged", Cfg: cfgT{sl.InstCfg{Backend: "bbolt", CacheSize: -1, Schema: schema(), Proxy: true}}, Alphabet: syms.Refs(same...), Depth: 3, Dedup: true, Starts: [][]any{{}, syms.Refs("ins1..6")}},
		seqx.Spec{Name: "bbolt/reopen/looks-unchanged", Cfg: cfgT{sl.InstCfg{Backend: "bbolt", CacheSize: 0, ReopenEachOp: true, Schema: schema(), Proxy: true}}, Alphabet: syms.Refs(same...), Depth: 3, Dedup: true, Starts: [][]any{{}}})
	seqx.Explore(cfg, rep, p, specs)
}

func main() {
	harness.Main("C05", seqx.Worker(factory), master, "model_checking")
}
