// C01 — stored points follow the documented insert / update / delete
// semantics.  Breadth-first search over histories of batches on the real
// shard against a plain-map reference model.
package main

import (
	"encoding/json"
	"fmt"
	"strings"
	"time"

	"github.com/semafind/semadb/models"
	sl "semaverif/harness/shardlib"

	"semaverif/engine/harness"
	"semaverif/engine/pool"
	"semaverif/engine/seqx"
)

const maxPointSize = 600

func fullSchema() models.IndexSchema {
	return models.IndexSchema{
		"vec":  {Type: models.IndexTypeVectorVamana, VectorVamana: &models.IndexVectorVamanaParameters{VectorSize: 2, DistanceMetric: models.DistanceEuclidean, SearchSize: 75, DegreeBound: 64, Alpha: 1.2}},
		"flat": {Type: models.IndexTypeVectorFlat, VectorFlat: &models.IndexVectorFlatParameters{VectorSize: 2, DistanceMetric: models.DistanceEuclidean}},
		"txt":  {Type: models.IndexTypeText, Text: &models.IndexTextParameters{Analyser: "standard"}},
		"s":    {Type: models.IndexTypeString, String: &models.IndexStringParameters{CaseSensitive: false}},
		"tags": {Type: models.IndexTypeStringArray, StringArray: &models.IndexStringArrayParameters{}},
		"a":    {Type: models.IndexTypeInteger},
		"f":    {Type: models.IndexTypeFloat},
		"n.x":  {Type: models.IndexTypeInteger},
	}
}

func docA(i int) sl.Doc {
	return sl.Doc{"vec": []float32{float32(i), 1}, "flat": []float32{1, float32(i)}, "txt": fmt.Sprintf("quick fox %d", i), "s": fmt.Sprintf("Name%d", i), "tags": []string{"x", fmt.Sprintf("t%d", i)}, "a": int64(i), "f": float64(i) / 2, "n": sl.Doc{"x": int64(10 + i), "y": "keep"}, "extra": true}
}

var universe = []int{1, 2, 3, 4}

// padFor returns the length of a "pad" string that makes docA(2) merged with
// {pad: ...} encode to exactly total bytes.
func padFor(total int) int {
	for n := 0; n <= total; n++ {
		d := sl.Canon(docA(2))
		d["pad"] = strings.Repeat("p", n)
		if len(sl.Encode(d)) >= total {
			return n
		}
	}
	panic("no pad length")
}

func symbols() *sl.Symbols {
	big := strings.Repeat("z", maxPointSize)
	exact := padFor(maxPointSize)
	return sl.NewSymbols(
		sl.Op{Name: "ins[u1]", Kind: "ins", Ids: []int{1}, Docs: []sl.Doc{docA(1)}},
		sl.Op{Name: "ins[u2]", Kind: "ins", Ids: []int{2}, Docs: []sl.Doc{docA(2)}},
		sl.Op{Name: "ins[u1,u2]", Kind: "ins", Ids: []int{1, 2}, Docs: []sl.Doc{docA(1), {"extra": "only"}}},
		sl.Op{Name: "ins[]", Kind: "ins"},
		sl.Op{Name: "ins[u1,u1]", Kind: "ins", Ids: []int{1, 1}, Docs: []sl.Doc{docA(1), docA(1)}},
		sl.Op{Name: "ins[u3,u1]", Kind: "ins", Ids: []int{3, 1}, Docs: []sl.Doc{docA(3), docA(1)}},
		sl.Op{Name: "ins[u3:{}]", Kind: "ins", Ids: []int{3}, Docs: []sl.Doc{{}}},
		sl.Op{Name: "upd[u1:{a:7}]", Kind: "upd", Ids: []int{1}, Docs: []sl.Doc{{"a": int64(7)}}},
		sl.Op{Name: "upd[u1:{a:_delete,vec:_delete}]", Kind: "upd", Ids: []int{1}, Docs: []sl.Doc{{"a": "_delete", "vec": "_delete", "nosuch": "_delete"}}},
		sl.Op{Name: "upd[u1:{n:{x:1}}]", Kind: "upd", Ids: []int{1}, Docs: []sl.Doc{{"n": sl.Doc{"x": int64(1)}}}},
		sl.Op{Name: "upd[u1:{s:B},u4:{s:C}]", Kind: "upd", Ids: []int{1, 4}, Docs: []sl.Doc{{"s": "B", "vec": []float32{5, 5}}, {"s": "C"}}},
		sl.Op{Name: "upd[u3:{gone:_delete,k:2}]", Kind: "upd", Ids: []int{3}, Docs: []sl.Doc{{"gone": "_delete", "k": int64(2)}}},
		sl.Op{Name: "upd[u3:{k:_delete}]", Kind: "upd", Ids: []int{3}, Docs: []sl.Doc{{"k": "_delete", "extra": "_delete"}}},
		sl.Op{Name: "upd[]", Kind: "upd"},
		// size boundary: with u2 = docA(2) the merged document is exactly MaxPointSize (accepted) / one byte over
		sl.Op{Name: "upd[u2:{pad:=max}]", Kind: "upd", Ids: []int{2}, Docs: []sl.Doc{{"pad": strings.Repeat("p", exact)}}},
		sl.Op{Name: "upd[u2:{pad:=max+1}]", Kind: "upd", Ids: []int{2}, Docs: []sl.Doc{{"pad": strings.Repeat("p", exact+1)}}},
		// the same id twice in one batch: merges apply in order
		sl.Op{Name: "upd[u1:{a:1,k:_delete},u1:{k:9,s:Z}]", Kind: "upd", Ids: []int{1, 1}, Docs: []sl.Doc{{"a": int64(1), "k": "_delete"}, {"k": int64(9), "s": "Z"}}},
		sl.Op{Name: "del{u2,u2}", Kind: "del", Ids: []int{2, 2}},
		// the marker is shallow: inside a nested map it is an ordinary value
		sl.Op{Name: "upd[u1:{n:{x:_delete}}]", Kind: "upd", Ids: []int{1}, Docs: []sl.Doc{{"n": sl.Doc{"x": "_delete"}}}},
		sl.Op{Name: "upd[u2:{big}]", Kind: "upd", Ids: []int{2}, Docs: []sl.Doc{{"big": big}}},
		sl.Op{Name: "upd[u2:{txt,flat},u3:{a:1}]", Kind: "upd", Ids: []int{2, 3}, Docs: []sl.Doc{{"txt": "lazy dog", "flat": []float32{9, 9}}, {"a": int64(1), "vec": []float32{0.5, 0.5}}}},
		sl.Op{Name: "del{u1}", Kind: "del", Ids: []int{1}},
		sl.Op{Name: "del{u1,u4}", Kind: "del", Ids: []int{1, 4}},
		sl.Op{Name: "del{}", Kind: "del"},
		sl.Op{Name: "del{u1,u2,u3}", Kind: "del", Ids: []int{1, 2, 3}},
	)
}

type cfgT struct {
	Inst sl.InstCfg `json:"inst"`
	Big  bool       `json:"big,omitempty"` // the bulk alphabet and its universe
}

// bulk batches: 10000 points (the HTTP layer's maximum per request), so that any
// chunking or batching threshold below that lies inside one batch
func bulk(name, kind string, lastIsU1 bool, doc func(i int) sl.Doc) sl.Op {
	op := sl.Op{Name: name, Kind: kind}
	for i := 0; i < 9999; i++ {
		op.Ids = append(op.Ids, 2000+i)
		if doc != nil {
			op.Docs = append(op.Docs, doc(i))
		}
	}
	last := 11999
	if lastIsU1 {
		last = 1
	}
	op.Ids = append(op.Ids, last)
	if doc != nil {
		op.Docs = append(op.Docs, doc(-1))
	}
	return op
}

var bigUniverse = []int{1, 2, 2000, 2001, 2126, 2127, 2128, 2129, 6094, 6095, 6096, 6097, 11997, 11998, 11999}

func bigSymbols() *sl.Symbols {
	return sl.NewSymbols(
		sl.Op{Name: "ins[u1]", Kind: "ins", Ids: []int{1}, Docs: []sl.Doc{docA(1)}},
		bulk("ins10000(fresh ids)", "ins", false, func(i int) sl.Doc { return sl.Doc{"k": int64(i)} }),
		bulk("ins10000(last id is u1)", "ins", true, func(i int) sl.Doc { return sl.Doc{"k": int64(i)} }),
		bulk("upd10000(last id is u1)", "upd", true, func(i int) sl.Doc { return sl.Doc{"k": "_delete", "j": int64(i)} }),
		bulk("del10000(last id is u1)", "del", true, nil),
		sl.Op{Name: "del{u1}", Kind: "del", Ids: []int{1}},
	)
}

func factory(raw json.RawMessage) (seqx.System, error) {
	var c cfgT
	if err := json.Unmarshal(raw, &c); err != nil {
		return nil, err
	}
	in, err := sl.NewInst(c.Inst)
	if err != nil {
		return nil, err
	}
	syms, uni := symbols(), universe
	if c.Big {
		syms, uni = bigSymbols(), bigUniverse
	}
	return &sl.ShardSystem{In: in, M: sl.NewModel(c.Inst.Schema, in.Cfg.MaxPointSize), Syms: syms,
		Battery: func(s *sl.ShardSystem) { s.In.PointsBattery(&s.Obs, s.M, uni) },
		KeyFn:   sl.PointStoreKey}, nil
}

func master(cfg *harness.Config, rep *harness.Report) {
	rep.Rule = "breadth-first search over histories of insert/update/delete batches (25-symbol alphabet incl. empty, duplicate-id (insert, update, delete), existing-id, unknown-id, exactly-at / one-over the size limit, nested and _delete batches) on the real shard, plus every history of length <= 2 over bulk batches of 10000 points (the HTTP maximum; accepted, and rejected at the last point); after every batch: returned error/ids vs the plain-map model, reported count, read of every id, select-all, and the raw points/internal buckets (bijection, counters, free list). evaluations = individual comparisons; states = distinct (model, point-store abstraction) pairs"
	rep.Assumptions = []string{"documents are maps as the HTTP layer produces them", "which freed node id is reused first depends on Go map iteration and is not enumerated", "bbolt commit atomicity"}
	p := pool.New(pool.Options{CPUsPerWorker: 2, JobTimeout: 30 * time.Second})
	syms := symbols()
	if cfg.Replay != "" {
		var r seqx.Replay
		if err := harness.LoadReplay(cfg.Replay, &r); err != nil {
			panic(err)
		}
		seqx.ReplayOne(rep, p, r)
		return
	}
	none := models.IndexSchema{}
	d1, d2 := 5, 4
	if !cfg.Quick() {
		d1, d2 = 6, 5
	}
	specs := []seqx.Spec{
		{Name: "noindex/bbolt", Cfg: cfgT{Inst: sl.InstCfg{Backend: "bbolt", CacheSize: -1, Schema: none, MaxPointSize: maxPointSize, Proxy: true}}, Alphabet: syms.Refs(), Depth: d1, Dedup: true,
			Starts: [][]any{{}, syms.Refs("ins[u1,u2]", "ins[u3:{}]", "del{u1,u2,u3}")}},
		{Name: "full/bbolt/warm", Cfg: cfgT{Inst: sl.InstCfg{Backend: "bbolt", CacheSize: -1, Schema: fullSchema(), MaxPointSize: maxPointSize, Proxy: true}}, Alphabet: syms.Refs(), Depth: d2, Dedup: true,
			Starts: [][]any{{}, syms.Refs("ins[u1,u2]", "ins[u3:{}]", "del{u1,u4}")}},
		{Name: "full/bbolt/reopen", Cfg: cfgT{Inst: sl.InstCfg{Backend: "bbolt", CacheSize: 0, Schema: fullSchema(), MaxPointSize: maxPointSize, ReopenEachOp: true, Proxy: true}}, Alphabet: syms.Refs(), Depth: d2 - 1, Dedup: true},
	}
	// bulk batches: every history of length <= 2 over {insert u1, insert / update / delete 10000 points whose last id is u1 or fresh}
	big := bigSymbols()
	specs = append(specs, seqx.Spec{Name: "noindex/bbolt/bulk", Cfg: cfgT{Inst: sl.InstCfg{Backend: "bbolt", CacheSize: -1, Schema: none, MaxPointSize: maxPointSize, Proxy: true}, Big: true}, Alphabet: big.Refs(), Depth: 2, Dedup: true})
	seqx.Explore(cfg, rep, p, specs)
}

func main() {
	harness.Main("C01", seqx.Worker(factory), master, "model_checking")
}
