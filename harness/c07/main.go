// C07 — a write batch is all-or-nothing under rejection, storage faults and
// crashes.  Fault enumeration: for every start state and batch, a counting run
// records how many storage operations of each (bucket, kind) the batch issues;
// then one run per fault point fails exactly that operation, and one run takes
// a crash image of the database file at every storage operation, when the
// transaction function returned and after commit.  Oracle: differential
// (observation battery + raw bucket digest before = after, on the running
// instance and after reopening / on the image) plus the reference model for
// batches that report success.
package main

import (
	"encoding/json"
	"fmt"
	"os"
	"runtime"
	"sort"
	"strings"
	"time"

	"github.com/semafind/semadb/models"
	"semaverif/engine/faultx"
	sl "semaverif/harness/shardlib"

	"semaverif/engine/harness"
	"semaverif/engine/pool"
)

const maxPointSize = 700

func f32(v float32) *float32 { return &v }

func schema(variant string) models.IndexSchema {
	s := models.IndexSchema{
		"vec":  {Type: models.IndexTypeVectorVamana, VectorVamana: &models.IndexVectorVamanaParameters{VectorSize: 4, DistanceMetric: models.DistanceEuclidean, SearchSize: 75, DegreeBound: 64, Alpha: 1.2}},
		"flat": {Type: models.IndexTypeVectorFlat, VectorFlat: &models.IndexVectorFlatParameters{VectorSize: 4, DistanceMetric: models.DistanceEuclidean}},
		"txt":  {Type: models.IndexTypeText, Text: &models.IndexTextParameters{Analyser: "standard"}},
		"s":    {Type: models.IndexTypeString, String: &models.IndexStringParameters{CaseSensitive: false}},
		"tags": {Type: models.IndexTypeStringArray, StringArray: &models.IndexStringArrayParameters{}},
		"a":    {Type: models.IndexTypeInteger},
		"f":    {Type: models.IndexTypeFloat},
	}
	if variant == "quant" {
		// quantisers that learn their parameters at the third point: the batch that crosses the
		// trigger writes the learned state (threshold / centroids) as well, and those puts can fail too
		s["qb"] = models.IndexSchemaValue{Type: models.IndexTypeVectorFlat, VectorFlat: &models.IndexVectorFlatParameters{VectorSize: 4, DistanceMetric: models.DistanceEuclidean, Quantizer: &models.Quantizer{Type: models.QuantizerBinary, Binary: &models.BinaryQuantizerParamaters{TriggerThreshold: 3, DistanceMetric: models.DistanceHamming}}}}
		s["qp"] = models.IndexSchemaValue{Type: models.IndexTypeVectorVamana, VectorVamana: &models.IndexVectorVamanaParameters{VectorSize: 4, DistanceMetric: models.DistanceEuclidean, SearchSize: 75, DegreeBound: 64, Alpha: 1.2, Quantizer: &models.Quantizer{Type: models.QuantizerProduct, Product: &models.ProductQuantizerParameters{NumCentroids: 2, NumSubVectors: 2, TriggerThreshold: 3}}}}
	}
	if variant == "badpq" {
		// validation lets this through; constructing the index fails (4 % 3 != 0)
		s["pq"] = models.IndexSchemaValue{Type: models.IndexTypeVectorFlat, VectorFlat: &models.IndexVectorFlatParameters{VectorSize: 4, DistanceMetric: models.DistanceEuclidean, Quantizer: &models.Quantizer{Type: models.QuantizerProduct, Product: &models.ProductQuantizerParameters{NumCentroids: 4, NumSubVectors: 3, TriggerThreshold: 1000}}}}
	}
	return s
}

var stored, queriesV = sl.VectorPool(models.DistanceEuclidean)

func doc(i int) sl.Doc {
	return sl.Doc{"vec": stored[i%8], "flat": stored[(i+3)%8], "qb": stored[(i+1)%8], "qp": stored[(i+5)%8], "txt": []string{"quick brown fox", "quick quick dog", "lazy dog", "zebra fox"}[i%4], "s": []string{"Ab", "aB", "b"}[i%3], "tags": []string{"x", fmt.Sprintf("t%d", i%2)}, "a": int64(i%3 - 1), "f": float64(i) / 2}
}

func symbols() *sl.Symbols {
	big := strings.Repeat("z", maxPointSize)
	return sl.NewSymbols(
		sl.Op{Name: "setup3", Kind: "ins", Ids: []int{1, 2, 3}, Docs: []sl.Doc{doc(0), doc(1), doc(2)}},
		sl.Op{Name: "ins1", Kind: "ins", Ids: []int{4}, Docs: []sl.Doc{doc(3)}},
		sl.Op{Name: "ins3", Kind: "ins", Ids: []int{4, 5, 6}, Docs: []sl.Doc{doc(3), doc(4), doc(5)}},
		sl.Op{Name: "upd(all indexed fields of 1, 2)", Kind: "upd", Ids: []int{1, 2}, Docs: []sl.Doc{doc(5), doc(6)}},
		sl.Op{Name: "upd(remove fields of 1)", Kind: "upd", Ids: []int{1}, Docs: []sl.Doc{{"vec": "_delete", "flat": "_delete", "txt": "_delete", "s": "_delete", "tags": "_delete", "a": "_delete", "f": "_delete"}}},
		sl.Op{Name: "del2", Kind: "del", Ids: []int{1, 2}},
		sl.Op{Name: "reject: duplicate id in batch", Kind: "ins", Ids: []int{4, 4}, Docs: []sl.Doc{doc(3), doc(3)}},
		sl.Op{Name: "reject: existing id last of 3", Kind: "ins", Ids: []int{4, 5, 1}, Docs: []sl.Doc{doc(3), doc(4), doc(0)}},
		sl.Op{Name: "reject: existing id without data last of 3", Kind: "ins", Ids: []int{4, 5, 1}, Docs: []sl.Doc{doc(3), doc(4), sl.NoData}},
		bigBatch("ins10000", false),
		bigBatch("reject: existing id last of 10000", true),
		sl.Op{Name: "reject: merged document oversized", Kind: "upd", Ids: []int{2, 1}, Docs: []sl.Doc{doc(6), {"big": big}}},
		sl.Op{Name: "reject: wrong field type", Kind: "ins", Ids: []int{4, 5}, Docs: []sl.Doc{doc(3), {"a": "not a number", "txt": "fox"}}},
		sl.Op{Name: "ins1(pq field)", Kind: "ins", Ids: []int{4}, Docs: []sl.Doc{{"pq": stored[1], "txt": "fox"}}},
	)
}

var universe = []int{1, 2, 3, 4, 5, 6}

func obsQueries() []models.Query {
	return []models.Query{
		{Property: "vec", VectorVamana: &models.SearchVectorVamanaOptions{Vector: queriesV[1], Operator: models.OperatorNear, SearchSize: 75, Limit: 75}},
		{Property: "flat", VectorFlat: &models.SearchVectorFlatOptions{Vector: queriesV[2], Operator: models.OperatorNear, Limit: 75}},
		{Property: "txt", Text: &models.SearchTextOptions{Value: "quick fox dog zebra", Operator: models.OperatorContainsAny, Limit: 75}},
		{Property: "s", String: &models.SearchStringOptions{Value: "a", Operator: models.OperatorGreaterOrEq}},
		{Property: "tags", StringArray: &models.SearchStringArrayOptions{Value: []string{"x", "t0", "t1"}, Operator: models.OperatorContainsAny}},
		{Property: "a", Integer: &models.SearchIntegerOptions{Value: -5, Operator: models.OperatorGreaterOrEq}},
		{Property: "f", Float: &models.SearchFloatOptions{Value: -5, Operator: models.OperatorGreaterOrEq}},
	}
}

// bigBatch is an insert of 10000 points (the HTTP layer's maximum per request)
// that carry no indexed field, so that its size, not the index work, is what is
// exercised: any chunking or batching threshold below 10000 lies inside it.
func bigBatch(name string, lastExists bool) sl.Op {
	op := sl.Op{Name: name, Kind: "ins"}
	for i := 0; i < 9999; i++ {
		op.Ids = append(op.Ids, 2000+i)
		op.Docs = append(op.Docs, sl.Doc{"k": int64(i)})
	}
	last := 11999
	if lastExists {
		last = 1
	}
	op.Ids = append(op.Ids, last)
	op.Docs = append(op.Docs, sl.Doc{"k": int64(-1)})
	return op
}

// Case identifies one (start state, batch, schema) combination.
type Case struct {
	State  string `json:"state"` // empty | warm3 | cold3
	Batch  string `json:"batch"`
	Schema string `json:"schema"` // full | badpq
}

type job struct {
	Kind  string        `json:"kind"` // count | fault | crash
	Case  Case          `json:"case"`
	Fault *faultx.Fault `json:"fault,omitempty"`
	// Policy biases the real scheduler: "" (eager), "index-last" (every storage
	// operation of an index pipeline is held back ~1 ms, so a write function
	// that does not wait for its pipelines returns first and their operations
	// arrive on the ended transaction), "points-last" (the mirror image).
	// A policy can only make a late use more likely, never fabricate one.
	Policy string `json:"policy,omitempty"`
}

type viol struct {
	Sig    string `json:"sig"`
	Detail string `json:"detail"`
}

type result struct {
	Counts  map[string]int `json:"counts,omitempty"`
	Viols   []viol         `json:"viols,omitempty"`
	Fired   bool           `json:"fired"`
	Failed  bool           `json:"failed"` // the batch returned an error
	Images  int            `json:"images"`
	Checks  int64          `json:"checks"`
	Outcome string         `json:"outcome"`
	Reject  bool           `json:"reject"`
}

func (r *result) v(sig, format string, a ...any) {
	if len(r.Viols) < 8 {
		r.Viols = append(r.Viols, viol{sig, fmt.Sprintf(format, a...)})
	}
}

type setup struct {
	in  *sl.Inst
	m   *sl.Model
	op  sl.Op
	cfg sl.InstCfg
}

func build(c Case) (*setup, error) {
	cfg := sl.InstCfg{Backend: "bbolt", CacheSize: -1, Schema: schema(c.Schema), MaxPointSize: maxPointSize, Proxy: true}
	in, err := sl.NewInst(cfg)
	if err != nil {
		return nil, err
	}
	syms := symbols()
	m := sl.NewModel(cfg.Schema, maxPointSize)
	if c.State != "empty" {
		op, _ := syms.Get("setup3")
		m.Apply(op)
		if r := in.ApplySettled(op); r.Err != nil {
			in.Close()
			return nil, fmt.Errorf("setup failed: %w", r.Err)
		}
		if c.State == "cold3" {
			if err := in.Reopen(); err != nil {
				in.Close()
				return nil, err
			}
		} else {
			// warm: touch every cache once with a search
			in.Observe(universe, obsQueries(), false)
		}
	}
	op, ok := syms.Get(c.Batch)
	if !ok {
		in.Close()
		return nil, fmt.Errorf("unknown batch %q", c.Batch)
	}
	return &setup{in: in, m: m, op: op, cfg: cfg}, nil
}

func modelBattery(res *result, in *sl.Inst, m *sl.Model, tag string) {
	o := &sl.Obs{}
	in.PointsBattery(o, m, universe)
	for _, q := range obsQueries()[3:] {
		in.FilterCheck(o, m, q, "")
	}
	tr := sl.BuildTextRef(m, "txt")
	opt := *obsQueries()[2].Text
	if r, err := in.Search(obsQueries()[2], nil, 0); err != nil {
		o.Fail("text-search-error", "%v", err)
	} else {
		sl.TextCheck(o, tr, opt, nil, r, "txt any")
	}
	env := sl.MetricEnv{Metric: models.DistanceEuclidean}
	if r, err := in.Search(obsQueries()[1], nil, 0); err != nil {
		o.Fail("flat-search-error", "%v", err)
	} else {
		sl.RankCheck(o, "flat", env, m, "flat", queriesV[2], 75, nil, nil, r, true, "flat all")
	}
	if r, err := in.Search(obsQueries()[0], nil, 0); err != nil {
		o.Fail("vamana-search-error", "%v", err)
	} else {
		sl.RankCheck(o, "vamana", env, m, "vec", queriesV[1], 75, nil, nil, r, false, "vamana all")
	}
	in.GraphCheck(o, m, "vec", *in.Cfg.Schema["vec"].VectorVamana)
	res.Checks += o.Checks
	for _, v := range o.Viols {
		res.v(tag+":"+v.Sig, "%s", v.Detail)
	}
}

func worker(raw json.RawMessage) (json.RawMessage, error) {
	var j job
	if err := json.Unmarshal(raw, &j); err != nil {
		return nil, err
	}
	res := &result{}
	st, err := build(j.Case)
	if err != nil {
		return nil, err
	}
	defer st.in.Close()
	in := st.in
	before, err := in.Observe(universe, obsQueries(), true)
	if err != nil {
		return nil, fmt.Errorf("observe before: %w", err)
	}
	mBefore := sl.NewModel(st.cfg.Schema, maxPointSize)
	for id, d := range st.m.Docs {
		mBefore.Docs[id] = d
	}
	exp := st.m.Apply(st.op)
	if j.Case.Schema == "badpq" {
		// the index cannot be constructed: every batch touching it must fail as a whole
		exp = sl.Expect{Reject: true, Why: "index construction fails"}
		st.m = mBefore
	}
	res.Reject = exp.Reject
	snapBase := in.Path + ".crash"
	switch j.Kind {
	case "count", "crash":
		if j.Kind == "crash" {
			in.Proxy.ArmSnapAll(snapBase)
		} else {
			in.Proxy.Arm(nil, snapBase)
		}
	case "fault", "die":
		in.Proxy.Arm(j.Fault, snapBase) // nil fault = the batch as it is, under a schedule policy
	}
	fmt.Fprintf(os.Stderr, "@@J-APPLY %s reject=%v fault=%v\n", st.op.Name, exp.Reject, j.Fault)
	switch j.Policy {
	case "index-last":
		in.Proxy.Hook = func(pt faultx.Point) {
			if pt.Writable && strings.HasPrefix(pt.Bucket, "index/") {
				time.Sleep(time.Millisecond)
			}
		}
	case "points-last":
		in.Proxy.Hook = func(pt faultx.Point) {
			if pt.Writable && (pt.Bucket == "points" || pt.Bucket == "internal") {
				time.Sleep(time.Millisecond)
			}
		}
	}
	var got sl.Result
	var died any
	baseGoroutines := runtime.NumGoroutine()
	func() {
		defer func() { died = recover() }()
		got = in.ApplySettled(st.op)
	}()
	in.Proxy.Hook = nil
	if j.Kind == "die" {
		res.Fired = in.Proxy.Fired()
		if died == nil {
			// the operation is not issued by the goroutine that called Write: its death is the crash image
			res.Outcome = fmt.Sprint(j.Case, "not-on-caller")
			in.Proxy.Arm(nil, snapBase)
			return json.Marshal(res)
		}
		if died != faultx.ErrPanicInjected {
			panic(died)
		}
		// the caller unwound (deferred functions ran); the process is gone. What is in the file?
		in.Settle(baseGoroutines)
		img := in.Proxy.Snapshot()
		in.Proxy.Arm(nil, snapBase)
		in.Shard = nil // the dead instance is not touched again (its locks may be held forever)
		label := "by a panic at " + faultStr(j.Fault) + " on the goroutine that issued the batch"
		ci, err := sl.OpenImage(st.cfg, img)
		if err != nil {
			res.v("crash-image-unreadable", "image taken after a death %s cannot be opened: %v", label, err)
		} else {
			obs, err := ci.Observe(universe, obsQueries(), true)
			res.Checks++
			res.Images = 1
			if err != nil {
				res.v("crash-image-unreadable", "image taken after a death %s: %v", label, err)
			} else if obs != before {
				res.v("death-by-panic-shows-partial-batch", "a process death %s of batch %q leaves a database that differs from the state before the batch:\n before: %s\n image:  %s", label, st.op.Name, clip(before), clip(obs))
			}
			ci.Shard.Close()
		}
		os.Remove(img)
		res.Outcome = fmt.Sprint(j.Case, "died", len(res.Viols))
		return json.Marshal(res)
	}
	if died != nil {
		panic(died)
	}
	res.Failed = got.Err != nil
	res.Fired = in.Proxy.Fired()
	firedSite := in.Proxy.FiredSite()
	txCounts := in.Proxy.TxCounts()
	images := in.Proxy.Snapshots()
	labels := in.Proxy.SnapshotLabels()
	in.Proxy.Arm(nil, snapBase) // stop injecting
	if sig, detail := sl.LateViolation(st.op, got); sig != "" {
		res.v(sig, "%s", detail)
	}
	switch j.Kind {
	case "count":
		if len(txCounts) > 0 {
			res.Counts = txCounts[0]
		}
		if sig, detail := sl.CompareResult(st.op, exp, got); sig != "" {
			res.v(sig, "%s", detail)
		}
	case "fault":
		if !res.Failed && exp.Reject {
			res.v("accepted-batch-that-must-be-rejected", "%s under %v", st.op.Name, j.Fault)
		}
		if !res.Failed && res.Fired && j.Fault != nil && j.Fault.Action == "fail" {
			// the code under test was handed an error for a storage operation of this batch and
			// reported success: the error was dropped somewhere
			site := firedSite
			if parts := strings.Split(site, " < "); len(parts) > 2 {
				site = strings.Join(parts[:2], "<")
			} else {
				site = strings.ReplaceAll(site, " < ", "<")
			}
			res.v("storage-error-swallowed:"+j.Fault.Kind+"@"+site, "%s met an injected storage error (%s, issued by %s) but reported success", st.op.Name, faultStr(j.Fault), firedSite)
		}
		if j.Fault == nil {
			if sig, detail := sl.CompareResult(st.op, exp, got); sig != "" {
				res.v(sig, "%s", detail)
			}
		}
	}
	// ---- the state the call left behind ----
	expectBefore := res.Failed
	check := func(tag string, inst *sl.Inst, wantBefore bool) {
		if wantBefore {
			after, err := inst.Observe(universe, obsQueries(), true)
			res.Checks++
			if err != nil {
				res.v(tag+":observation-failed", "%v", err)
				return
			}
			if after != before {
				res.v(tag+":failed-batch-left-traces", "after the failed batch %q (%s) the %s differs from before the batch:\n before: %s\n after:  %s", st.op.Name, faultStr(j.Fault), tag, clip(before), clip(after))
			}
			modelBattery(res, inst, mBefore, tag)
		} else {
			modelBattery(res, inst, st.m, tag)
		}
	}
	check("running-instance", in, expectBefore)
	// a fresh cache transaction must rebuild the caches the failed batch touched:
	// covered by the differential battery on the running instance (warm answers
	// come from whatever the manager hands out now)
	if err := in.Reopen(); err != nil {
		res.v("reopen-failed", "%v", err)
	} else {
		check("reopened-file", in, expectBefore)
	}
	// ---- crash images ----
	if j.Kind == "crash" {
		res.Images = len(images)
		for i, img := range images {
			label := labels[i]
			wantBefore := !strings.HasPrefix(label, "after TxEnd") || res.Failed
			ci, err := sl.OpenImage(st.cfg, img)
			if err != nil {
				res.v("crash-image-unreadable", "image taken %s cannot be opened: %v", label, err)
				os.Remove(img)
				continue
			}
			obs, err := ci.Observe(universe, obsQueries(), true)
			res.Checks++
			switch {
			case err != nil:
				res.v("crash-image-unreadable", "image taken %s: %v", label, err)
			case wantBefore && obs != before:
				res.v("crash-before-commit-shows-partial-batch", "a process death %s of batch %q leaves a database that differs from the state before the batch:\n before: %s\n image:  %s", label, st.op.Name, clip(before), clip(obs))
			case !wantBefore:
				modelBattery(res, ci, st.m, "image-after-commit")
			}
			ci.Shard.Close()
			os.Remove(img)
		}
	} else {
		for _, img := range images {
			os.Remove(img)
		}
	}
	res.Outcome = fmt.Sprint(j.Case, res.Failed, res.Fired, len(res.Viols))
	return json.Marshal(res)
}

func faultStr(f *faultx.Fault) string {
	if f == nil {
		return "no injected fault"
	}
	return f.String()
}

func clip(s string) string {
	if len(s) > 700 {
		return s[:700] + "…"
	}
	return s
}

func master(cfg *harness.Config, rep *harness.Report) {
	rep.Rule = "cases = start state {empty, 3 points warm, 3 points reopened cold} x batch {insert 1, insert 3, update every indexed field of 2 points, remove every indexed field, delete 2, and the validation rejections: duplicate id in batch, existing id last of 3 (with a document, and as a point without any data), merged document over MaxPointSize, wrong field type; an insert of 10000 points (accepted, and rejected at its last point: four fault ordinals per bucket and kind); plus an index whose construction fails, plus four cases on a schema with a learned binary and a product quantiser whose trigger threshold the batch crosses}; per case a counting run, then one run per fault point = every (bucket, kind in {Put, Delete, ForEach, Scan, BucketOpen, TxBegin}, ordinal) the batch issues, failing exactly that operation, and one run in which the commit itself fails after the transaction function returned; the first and last ordinal of every (bucket, kind) and the fault-free batch additionally under two schedule policies (index pipelines held back / point store held back); one run that takes a crash image of the file at every storage operation, when the transaction function returned, and after commit; and one run per storage operation (reads included) in which the process dies by a panic raised at that operation on the goroutine that issued the batch, so that every deferred function between the operation and the caller runs before the file is inspected (operations issued by other goroutines die without unwinding: their death is the crash image). Oracle: a failed call leaves observation battery + raw bucket digest identical to before, on the running instance and after reopen; a successful call equals the reference model; crash images before commit and the file left by a death by panic equal the state before, after commit the model after; storage use after transaction end is recorded by the proxy. distinct_nontrivial = fault points that fired"
	rep.Assumptions = []string{"Get cannot return an error in the storage API: reads are counted, not failed", "bbolt's own commit (page writes + fsync) is atomic: torn pages inside a commit are not enumerated", "goroutine interleavings inside the batch are those the real scheduler produced (schedule policies: see DESIGN.md)"}
	p := pool.New(pool.Options{CPUsPerWorker: 2, JobTimeout: 90 * time.Second})
	run := func(jobs []job) []pool.Result {
		raws := make([]json.RawMessage, len(jobs))
		for i, j := range jobs {
			raws[i], _ = json.Marshal(j)
		}
		out, err := p.RunAll(raws)
		if err != nil {
			panic(err)
		}
		return out
	}
	if cfg.Replay != "" {
		var j job
		if err := harness.LoadReplay(cfg.Replay, &j); err != nil {
			panic(err)
		}
		for _, r := range run([]job{j}) {
			absorb(rep, j, r)
		}
		return
	}
	batches := []string{"ins1", "ins3", "upd(all indexed fields of 1, 2)", "upd(remove fields of 1)", "del2", "reject: duplicate id in batch", "reject: existing id last of 3", "reject: existing id without data last of 3", "reject: merged document oversized", "reject: wrong field type"}
	var cases []Case
	for _, st := range []string{"empty", "warm3", "cold3"} {
		for _, b := range batches {
			if st == "empty" && (strings.HasPrefix(b, "upd") || b == "del2" || strings.Contains(b, "existing") || strings.Contains(b, "oversized")) {
				continue
			}
			cases = append(cases, Case{State: st, Batch: b, Schema: "full"})
		}
	}
	cases = append(cases, Case{State: "empty", Batch: "ins1(pq field)", Schema: "badpq"}, Case{State: "warm3", Batch: "ins1(pq field)", Schema: "badpq"})
	// learned quantisers: the batch that crosses the trigger threshold (and the ones around it)
	for _, c := range []Case{{State: "empty", Batch: "ins3", Schema: "quant"}, {State: "warm3", Batch: "ins1", Schema: "quant"}, {State: "warm3", Batch: "del2", Schema: "quant"}, {State: "cold3", Batch: "upd(all indexed fields of 1, 2)", Schema: "quant"}} {
		cases = append(cases, c)
	}
	// the largest batch the HTTP layer lets through, accepted and rejected at its last point
	cases = append(cases, Case{State: "warm3", Batch: "ins10000", Schema: "full"}, Case{State: "warm3", Batch: "reject: existing id last of 10000", Schema: "full"})
	// 1. counting runs
	var cjobs []job
	for _, c := range cases {
		cjobs = append(cjobs, job{Kind: "count", Case: c})
	}
	var fjobs []job
	faultPoints := 0
	diePoints := 0
	for i, r := range run(cjobs) {
		res := absorb(rep, cjobs[i], r)
		if res == nil {
			continue
		}
		var keys []string
		for k := range res.Counts {
			keys = append(keys, k)
		}
		sort.Strings(keys)
		for _, k := range keys {
			bucket, kind, _ := strings.Cut(k, "|")
			if kind == faultx.KEnd {
				continue
			}
			if kind == faultx.KReturn {
				// the transaction function has returned nil - every index is done - and the commit
				// fails: the batch must leave no trace either
				fjobs = append(fjobs, job{Kind: "fault", Case: cjobs[i].Case, Fault: &faultx.Fault{Tx: 1, Kind: faultx.KReturn, Ordinal: 1, Action: "fail"}})
				faultPoints++
				continue
			}
			n := res.Counts[k]
			step := 1
			if big := strings.Contains(cjobs[i].Case.Batch, "10000"); big {
				step = max(1, (n-1)/3) // a 10000-point batch: four ordinals per (bucket, kind) incl. first and last
			}
			// the process dies by a panic at this operation (reads included); only operations issued
			// by the goroutine that called Write unwind through the transaction's deferred functions
			for ord := 1; ord <= n; ord += step {
				fjobs = append(fjobs, job{Kind: "die", Case: cjobs[i].Case, Fault: &faultx.Fault{Tx: 1, Bucket: bucket, Kind: kind, Ordinal: ord, Action: "panic"}})
				diePoints++
			}
			if kind == faultx.KGet {
				continue
			}
			for ord := 1; ord <= n; ord += step {
				f := &faultx.Fault{Tx: 1, Bucket: bucket, Kind: kind, Ordinal: ord, Action: "fail"}
				fjobs = append(fjobs, job{Kind: "fault", Case: cjobs[i].Case, Fault: f})
				faultPoints++
				// the schedule policies on the first and last ordinal of every (bucket, kind)
				if (ord == 1 || ord == n || !cfg.Quick()) && !strings.Contains(cjobs[i].Case.Batch, "10000") {
					fjobs = append(fjobs, job{Kind: "fault", Case: cjobs[i].Case, Fault: f, Policy: "index-last"}, job{Kind: "fault", Case: cjobs[i].Case, Fault: f, Policy: "points-last"})
				}
			}
			if (n-1)%step != 0 {
				fjobs = append(fjobs, job{Kind: "fault", Case: cjobs[i].Case, Fault: &faultx.Fault{Tx: 1, Bucket: bucket, Kind: kind, Ordinal: n, Action: "fail"}})
				faultPoints++
			}
		}
		if !strings.Contains(cjobs[i].Case.Batch, "10000") { // (an image per storage operation of a 10000-point batch would be 30000 file copies)
			fjobs = append(fjobs, job{Kind: "crash", Case: cjobs[i].Case})
		}
		// the batch without an injected fault under both policies (rejections are faults of their own)
		if !strings.Contains(cjobs[i].Case.Batch, "10000") { // (the policies delay every storage operation by ~1 ms: 30 s per run of a 10000-point batch)
			fjobs = append(fjobs, job{Kind: "fault", Case: cjobs[i].Case, Policy: "index-last"}, job{Kind: "fault", Case: cjobs[i].Case, Policy: "points-last"})
		}
	}
	rep.Set("cases", len(cases))
	rep.Set("fault_points", faultPoints)
	rep.Set("panic_points", diePoints)
	fired := 0
	images := 0
	deaths := 0
	for i, r := range run(fjobs) {
		if cfg.Expired() {
			rep.NotExhaustive("internal deadline")
		}
		res := absorb(rep, fjobs[i], r)
		if res != nil {
			if res.Fired && fjobs[i].Kind == "die" {
				deaths++
			} else if res.Fired {
				fired++
			}
			images += res.Images
		}
	}
	rep.DistinctNontrivial = int64(fired)
	rep.Set("fault_points_fired", fired)
	rep.Set("crash_images_checked", images)
	rep.Set("deaths_by_panic_on_the_calling_goroutine", deaths)
	rep.Sample(fjobs[0])
	rep.Sample(fjobs[len(fjobs)/2])
	rep.Sample(fjobs[len(fjobs)-1])
}

func absorb(rep *harness.Report, j job, r pool.Result) *result {
	if r.Crashed || r.Hung {
		kind := "crashed"
		if r.Hung {
			kind = "hung"
		}
		class := ""
		if strings.Contains(r.Stderr, "@@J-APPLY") {
			class = "-in-rejected-batch" // a failing batch was in flight (rejected or fault-injected)
		}
		rep.Violate(harness.Violation{Sig: "process-" + kind + class + ":", Detail: fmt.Sprintf("%v: %s", j, tailS(r.Stderr, 3000)), Replay: j})
		return nil
	}
	if r.Err != "" {
		rep.NotExhaustive("harness error: " + r.Err)
		return nil
	}
	var res result
	if err := json.Unmarshal(r.Out, &res); err != nil {
		rep.NotExhaustive("bad worker result")
		return nil
	}
	rep.Evaluations++
	rep.Add("comparisons", res.Checks)
	rep.Outcome(res.Outcome)
	for _, v := range res.Viols {
		rep.Violate(harness.Violation{Sig: v.Sig, Detail: fmt.Sprintf("[%s | %s | %s | policy %q] %s", j.Case.State, j.Case.Batch, faultStr(j.Fault), j.Policy, v.Detail), Replay: j})
	}
	return &res
}

func tailS(s string, n int) string {
	if len(s) > n {
		return s[len(s)-n:]
	}
	return s
}

func main() {
	harness.Main("C07", worker, master, "fault_enumeration")
}
