// C02 — filter queries return exactly the live points that satisfy the
// predicate.  (A) the whole operator x boundary-value query space over a fixed
// data set, (B) breadth-first search over write histories with the leaf
// battery after every batch; both storage backends.
package main

import (
	"encoding/json"
	"fmt"
	"math"
	"time"

	"github.com/semafind/semadb/models"
	sl "semaverif/harness/shardlib"

	"semaverif/engine/harness"
	"semaverif/engine/pool"
	"semaverif/engine/seqx"
)

func schema() models.IndexSchema {
	return models.IndexSchema{
		"s":     {Type: models.IndexTypeString, String: &models.IndexStringParameters{CaseSensitive: true}},
		"si":    {Type: models.IndexTypeString, String: &models.IndexStringParameters{CaseSensitive: false}},
		"tags":  {Type: models.IndexTypeStringArray, StringArray: &models.IndexStringArrayParameters{IndexStringParameters: models.IndexStringParameters{CaseSensitive: true}}},
		"tagsi": {Type: models.IndexTypeStringArray, StringArray: &models.IndexStringArrayParameters{IndexStringParameters: models.IndexStringParameters{CaseSensitive: false}}},
		"a":     {Type: models.IndexTypeInteger},
		"f":     {Type: models.IndexTypeFloat},
		"n.x":   {Type: models.IndexTypeInteger},
		"n.s":   {Type: models.IndexTypeString, String: &models.IndexStringParameters{CaseSensitive: false}},
	}
}

var (
	strVals   = []string{"a", "A", "ab", "aB", "abc", "b", "é", "É", "éx", "~"}
	intVals   = []int64{math.MinInt64, -1 << 32, -1, 0, 1, 1 << 31, math.MaxInt64}
	floatVals = []float64{math.Inf(-1), -math.MaxFloat64, -1, -math.SmallestNonzeroFloat64, math.Copysign(0, -1), 0, math.SmallestNonzeroFloat64, 1, math.Nextafter(1, 2), math.MaxFloat64, math.Inf(1)}
	tagVals   = []string{"x", "X", "y"}
	tagSets   = [][]string{{"x"}, {"X"}, {"y"}, {"x", "y"}, {"X", "x"}, {"x", "X", "y"}, {}, {"y", "y"}}
)

// dataset A: 11 points carrying every boundary value, one bare point, one
// point with only nested fields
func datasetA() sl.Op {
	op := sl.Op{Name: "insA", Kind: "ins"}
	for i := 0; i < 11; i++ {
		d := sl.Doc{
			"s": strVals[i%len(strVals)], "si": strVals[(i+3)%len(strVals)],
			"tags": append([]string{}, tagSets[i%len(tagSets)]...), "tagsi": append([]string{}, tagSets[(i+2)%len(tagSets)]...),
			"a": intVals[i%len(intVals)], "f": floatVals[i],
			"n": sl.Doc{"x": intVals[(i+2)%len(intVals)], "s": strVals[(i+5)%len(strVals)]},
		}
		op.Ids = append(op.Ids, i+1)
		op.Docs = append(op.Docs, d)
	}
	op.Ids = append(op.Ids, 12, 13)
	op.Docs = append(op.Docs, sl.Doc{"other": "no indexed field"}, sl.Doc{"n": sl.Doc{"x": int64(0)}, "s2": "near miss"})
	return op
}

// dataset W ("wide"): 1200 points with pairwise distinct integer, float and
// string values, so that range scans run over many more distinct keys than any
// batching or folding threshold inside a scan (and a few points that share a value)
const wideN = 1200

func datasetW() sl.Op {
	op := sl.Op{Name: "insW", Kind: "ins"}
	for i := 0; i < wideN; i++ {
		v := i
		if i >= wideN-10 {
			v = i - 600 // ten points share a value with an earlier point
		}
		op.Ids = append(op.Ids, 1000+i)
		op.Docs = append(op.Docs, sl.Doc{"a": int64(v), "f": float64(v) / 4, "s": fmt.Sprintf("k%05d", v), "si": fmt.Sprintf("K%05d", v), "tags": []string{fmt.Sprintf("t%d", v%700)}})
	}
	return op
}

func batteryW() []models.Query {
	var qs []models.Query
	bounds := []int{-1, 0, 1, 255, 256, 511, 512, 513, 1023, 1024, 1025, wideN - 11, wideN}
	for _, b := range bounds {
		for _, op := range []string{models.OperatorLessThan, models.OperatorLessOrEq, models.OperatorGreaterThan, models.OperatorGreaterOrEq, models.OperatorEquals, models.OperatorNotEquals} {
			qs = append(qs, models.Query{Property: "a", Integer: &models.SearchIntegerOptions{Value: int64(b), Operator: op}})
			qs = append(qs, models.Query{Property: "f", Float: &models.SearchFloatOptions{Value: float64(b) / 4, Operator: op}})
			qs = append(qs, models.Query{Property: "s", String: &models.SearchStringOptions{Value: fmt.Sprintf("k%05d", max(b, 0)), Operator: op}})
			qs = append(qs, models.Query{Property: "si", String: &models.SearchStringOptions{Value: fmt.Sprintf("k%05d", max(b, 0)), Operator: op}})
		}
		for _, e := range bounds {
			if e > b {
				qs = append(qs, models.Query{Property: "a", Integer: &models.SearchIntegerOptions{Value: int64(b), EndValue: int64(e), Operator: models.OperatorInRange}})
				qs = append(qs, models.Query{Property: "f", Float: &models.SearchFloatOptions{Value: float64(b) / 4, EndValue: float64(e) / 4, Operator: models.OperatorInRange}})
				if b >= 0 {
					qs = append(qs, models.Query{Property: "s", String: &models.SearchStringOptions{Value: fmt.Sprintf("k%05d", b), EndValue: fmt.Sprintf("k%05d", e), Operator: models.OperatorInRange}})
				}
			}
		}
	}
	qs = append(qs, models.Query{Property: "s", String: &models.SearchStringOptions{Value: "k00", Operator: models.OperatorStartsWith}}, models.Query{Property: "si", String: &models.SearchStringOptions{Value: "K0", Operator: models.OperatorStartsWith}})
	var many []string
	for i := 0; i < 700; i += 7 {
		many = append(many, fmt.Sprintf("t%d", i))
	}
	qs = append(qs, models.Query{Property: "tags", StringArray: &models.SearchStringArrayOptions{Value: many, Operator: models.OperatorContainsAny}})
	return qs
}

func batteryA() []models.Query {
	var qs []models.Query
	qs = append(qs, sl.StringLeaves("s", strVals)...)
	qs = append(qs, sl.StringLeaves("si", strVals)...)
	qs = append(qs, sl.StringLeaves("n.s", []string{"a", "B", "é", "É"})...)
	qs = append(qs, sl.IntLeaves("a", intVals)...)
	qs = append(qs, sl.IntLeaves("n.x", intVals)...)
	qs = append(qs, sl.FloatLeaves("f", floatVals)...)
	qs = append(qs, sl.ArrayLeaves("tags", tagVals)...)
	qs = append(qs, sl.ArrayLeaves("tagsi", tagVals)...)
	pool := []models.Query{
		{Property: "s", String: &models.SearchStringOptions{Value: "ab", Operator: models.OperatorGreaterOrEq}},
		{Property: "si", String: &models.SearchStringOptions{Value: "A", Operator: models.OperatorStartsWith}},
		{Property: "a", Integer: &models.SearchIntegerOptions{Value: 0, Operator: models.OperatorLessThan}},
		{Property: "f", Float: &models.SearchFloatOptions{Value: 0, Operator: models.OperatorNotEquals}},
		{Property: "tagsi", StringArray: &models.SearchStringArrayOptions{Value: []string{"x", "y"}, Operator: models.OperatorContainsAll}},
		sl.IdQuery(1, 2, 3, 12, 40),
	}
	qs = append(qs, sl.Composites(pool)...)
	qs = append(qs, sl.IdQuery(1), sl.IdQuery(12), sl.IdQuery(40), sl.IdQuery(1, 40), sl.IdQuery(40, 41))
	return qs
}

// ---- history space ----

func docB(v int) sl.Doc {
	s := []string{"Ab", "aB", "b"}[v]
	return sl.Doc{"s": s, "si": s, "tags": []string{"x", s}, "tagsi": []string{"X", s}, "a": int64(v - 1), "f": float64(v) - 0.5, "n": sl.Doc{"x": int64(v), "s": s}}
}

func symbols() *sl.Symbols {
	return sl.NewSymbols(
		datasetA(),
		datasetW(),
		sl.Op{Name: "delW(every 3rd of the first 900)", Kind: "del", Ids: func() []int {
			var ids []int
			for i := 0; i < 900; i += 3 {
				ids = append(ids, 1000+i)
			}
			return ids
		}()},
		sl.Op{Name: "ins1(v0)", Kind: "ins", Ids: []int{1}, Docs: []sl.Doc{docB(0)}},
		sl.Op{Name: "ins2(v0)", Kind: "ins", Ids: []int{2}, Docs: []sl.Doc{docB(0)}},
		sl.Op{Name: "ins3(v1)", Kind: "ins", Ids: []int{3}, Docs: []sl.Doc{docB(1)}},
		sl.Op{Name: "upd1(v1)", Kind: "upd", Ids: []int{1}, Docs: []sl.Doc{docB(1)}},
		sl.Op{Name: "upd1,2(v2)", Kind: "upd", Ids: []int{1, 2}, Docs: []sl.Doc{docB(2), docB(2)}},
		sl.Op{Name: "upd1(v1),3(v0) swap", Kind: "upd", Ids: []int{1, 3}, Docs: []sl.Doc{docB(1), docB(0)}},
		sl.Op{Name: "upd1(remove)", Kind: "upd", Ids: []int{1}, Docs: []sl.Doc{{"s": "_delete", "si": "_delete", "tags": "_delete", "tagsi": "_delete", "a": "_delete", "f": "_delete", "n": "_delete"}}},
		sl.Op{Name: "upd1(add v0)", Kind: "upd", Ids: []int{1}, Docs: []sl.Doc{docB(0)}},
		sl.Op{Name: "upd2(n:{x})", Kind: "upd", Ids: []int{2}, Docs: []sl.Doc{{"n": sl.Doc{"x": int64(7)}, "tags": []string{}}}},
		sl.Op{Name: "upd1(tags -> duplicates, same length)", Kind: "upd", Ids: []int{1}, Docs: []sl.Doc{{"tags": []string{"x", "x"}, "tagsi": []string{"x", "X"}}}},
		sl.Op{Name: "upd2(tags reordered)", Kind: "upd", Ids: []int{2}, Docs: []sl.Doc{{"tags": []string{"Ab", "x"}, "tagsi": []string{"ab", "x"}}}},
		// spellings that Unicode case folding identifies but lower-casing (the index's declared rule)
		// keeps apart: capital / small / final sigma.  Point 3 moves between them.
		sl.Op{Name: "upd3(si: ΟΔΟΣ)", Kind: "upd", Ids: []int{3}, Docs: []sl.Doc{{"si": "ΟΔΟΣ", "tagsi": []string{"ΟΔΟΣ"}}}},
		sl.Op{Name: "upd3(si: οδος)", Kind: "upd", Ids: []int{3}, Docs: []sl.Doc{{"si": "οδος", "tagsi": []string{"οδος"}}}},
		// arrays of equal length whose elements, written one after the other with spaces, read the same
		sl.Op{Name: "upd3(tags: [red car, blue])", Kind: "upd", Ids: []int{3}, Docs: []sl.Doc{{"tags": []string{"red car", "blue"}, "tagsi": []string{"red car", "blue"}}}},
		sl.Op{Name: "upd3(tags: [red, car blue])", Kind: "upd", Ids: []int{3}, Docs: []sl.Doc{{"tags": []string{"red", "car blue"}, "tagsi": []string{"red", "car blue"}}}},
		sl.Op{Name: "del1", Kind: "del", Ids: []int{1}},
		sl.Op{Name: "del1,2", Kind: "del", Ids: []int{1, 2}},
		sl.Op{Name: "ins1(empty strings)", Kind: "ins", Ids: []int{1}, Docs: []sl.Doc{{"s": "", "si": "", "tags": []string{""}, "a": int64(0)}}},
	)
}

func batteryB() []models.Query {
	sv := []string{"Ab", "aB", "ab", "b", "a"}
	var qs []models.Query
	qs = append(qs, sl.StringLeaves("s", sv)...)
	qs = append(qs, sl.StringLeaves("si", sv)...)
	qs = append(qs, sl.StringLeaves("si", []string{"ΟΔΟΣ", "οδος", "οδοσ"})...)
	qs = append(qs, sl.ArrayLeaves("tagsi", []string{"ΟΔΟΣ", "οδος"})...)
	qs = append(qs, sl.ArrayLeaves("tags", []string{"red", "red car", "car blue", "blue"})...)
	qs = append(qs, sl.StringLeaves("n.s", []string{"ab", "B"})...)
	qs = append(qs, sl.IntLeaves("a", []int64{-1, 0, 1})...)
	qs = append(qs, sl.IntLeaves("n.x", []int64{0, 1, 7})...)
	qs = append(qs, sl.FloatLeaves("f", []float64{-0.5, 0.5, 1.5})...)
	qs = append(qs, sl.ArrayLeaves("tags", []string{"x", "Ab", "b"})...)
	qs = append(qs, sl.ArrayLeaves("tagsi", []string{"x", "AB", "b"})...)
	qs = append(qs, sl.IdQuery(1, 2, 3))
	return qs
}

type cfgT struct {
	Inst    sl.InstCfg `json:"inst"`
	Battery string     `json:"battery"`
}

var universe = []int{1, 2, 3}

func factory(raw json.RawMessage) (seqx.System, error) {
	var c cfgT
	if err := json.Unmarshal(raw, &c); err != nil {
		return nil, err
	}
	in, err := sl.NewInst(c.Inst)
	if err != nil {
		return nil, err
	}
	qs := batteryB()
	if c.Battery == "A" {
		qs = batteryA()
	}
	if c.Battery == "W" {
		qs = batteryW()
	}
	return &sl.ShardSystem{In: in, M: sl.NewModel(c.Inst.Schema, in.Cfg.MaxPointSize), Syms: symbols(),
		Battery: func(s *sl.ShardSystem) {
			for _, q := range qs {
				s.In.FilterCheck(&s.Obs, s.M, q, "")
			}
		},
		KeyFn: sl.FullKey}, nil
}

func master(cfg *harness.Config, rep *harness.Report) {
	rep.Rule = "A: every operator x every boundary value (x every end value for inRange) for case-sensitive and case-insensitive string, string-array, integer, float and nested-path indexes, plus all _and/_or trees of depth<=2 over a 6-leaf pool, over a fixed 13-point data set; W: ~1.6 k range / comparison / prefix / containsAny queries with bounds around 0, 256, 512, 1024 and the ends over a 1200-point data set of pairwise distinct integer, float and string values (before and after deleting 300 of them); B: breadth-first search over write histories (insert, change, remove via _delete, re-add, nested replace, delete, node-id reuse, empty strings) with a ~400-query leaf battery after every batch; memstore and bbolt. evaluations = queries compared with the direct evaluation on the model documents"
	rep.Assumptions = []string{"only queries that pass the API's own Validate() are issued", "case folding is strings.ToLower as the index declares", "NaN is not a storable value in the alphabet"}
	p := pool.New(pool.Options{CPUsPerWorker: 2, JobTimeout: 60 * time.Second})
	syms := symbols()
	if cfg.Replay != "" {
		var r seqx.Replay
		if err := harness.LoadReplay(cfg.Replay, &r); err != nil {
			panic(err)
		}
		seqx.ReplayOne(rep, p, r)
		return
	}
	depth := 5
	if !cfg.Quick() {
		depth = 8
	}
	hist := []string{"ins1(v0)", "ins2(v0)", "ins3(v1)", "upd1(v1)", "upd1,2(v2)", "upd1(v1),3(v0) swap", "upd1(remove)", "upd1(add v0)", "upd2(n:{x})", "upd1(tags -> duplicates, same length)", "upd2(tags reordered)", "upd3(si: ΟΔΟΣ)", "upd3(si: οδος)", "upd3(tags: [red car, blue])", "upd3(tags: [red, car blue])", "del1", "del1,2", "ins1(empty strings)"}
	var specs []seqx.Spec
	for _, be := range []string{"bbolt", "mem"} {
		specs = append(specs,
			seqx.Spec{Name: "A/" + be, Cfg: cfgT{sl.InstCfg{Backend: be, CacheSize: -1, Schema: schema(), Proxy: be == "bbolt"}, "A"}, Starts: [][]any{syms.Refs("insA")}, Depth: 0},
			seqx.Spec{Name: "W/" + be, Cfg: cfgT{sl.InstCfg{Backend: be, CacheSize: -1, Schema: schema(), Proxy: be == "bbolt"}, "W"}, Starts: [][]any{syms.Refs("insW")}, Alphabet: syms.Refs("delW(every 3rd of the first 900)"), Depth: 1},
			seqx.Spec{Name: "B/" + be, Cfg: cfgT{sl.InstCfg{Backend: be, CacheSize: -1, Schema: schema(), Proxy: be == "bbolt"}, "B"}, Alphabet: syms.Refs(hist...), Depth: depth, Dedup: true},
		)
	}
	seqx.Explore(cfg, rep, p, specs)
}

func main() {
	harness.Main("C02", seqx.Worker(factory), master, "model_checking")
}
