package clusterlib

import (
	"bytes"
	"encoding/json"
	"net/http"
	"net/http/httptest"
	"regexp"
	"sort"

	"github.com/semafind/semadb/cluster"
	"github.com/semafind/semadb/httpapi/middleware"
	httpv1 "github.com/semafind/semadb/httpapi/v1"
	httpv2 "github.com/semafind/semadb/httpapi/v2"
	"github.com/semafind/semadb/models"
)

// Handler assembles the HTTP handler chain of the server (the unexported
// setupRouter of package httpapi: v1 + v2 mux, app-header middleware,
// recover), without the logging / metrics / IP filters.
func Handler(cnode *cluster.ClusterNode, plans map[string]models.UserPlan) http.Handler {
	mux := http.NewServeMux()
	mux.Handle("/v1/", http.StripPrefix("/v1", httpv1.SetupV1Handlers(cnode)))
	mux.Handle("/v2/", http.StripPrefix("/v2", httpv2.SetupV2Handlers(cnode)))
	var h http.Handler = mux
	h = middleware.AppHeaderMiddleware(plans, h)
	h = middleware.Recover(h)
	return h
}

// Req is one HTTP request.
type Req struct {
	Method string            `json:"method"`
	Path   string            `json:"path"`
	User   string            `json:"user"`
	Plan   string            `json:"plan"`
	CType  string            `json:"ctype"`
	Body   []byte            `json:"body"`
	Hdr    map[string]string `json:"hdr,omitempty"`
}

// Resp is the observable part of a response.
type Resp struct {
	Status int
	Body   []byte
}

// Do serves one request in-process.
func Do(h http.Handler, r Req) Resp {
	req := httptest.NewRequest(r.Method, r.Path, bytes.NewReader(r.Body))
	if r.User != "" {
		req.Header.Set("X-User-Id", r.User)
	}
	if r.Plan != "" {
		req.Header.Set("X-Plan-Id", r.Plan)
	}
	if r.CType != "" {
		req.Header.Set("Content-Type", r.CType)
	}
	for k, v := range r.Hdr {
		req.Header.Set(k, v)
	}
	w := httptest.NewRecorder()
	h.ServeHTTP(w, req)
	return Resp{Status: w.Code, Body: w.Body.Bytes()}
}

// JSON builds a JSON request.
func JSON(method, path, user, plan string, body any) Req {
	var b []byte
	if body != nil {
		b, _ = json.Marshal(body)
	}
	return Req{Method: method, Path: path, User: user, Plan: plan, CType: "application/json", Body: b}
}

var uuidRe = regexp.MustCompile(`[0-9a-f]{8}-[0-9a-f]{4}-[0-9a-f]{4}-[0-9a-f]{4}-[0-9a-f]{12}`)

// Canon renders a response canonically: JSON re-encoded with sorted keys,
// shard uuids (random) replaced by their rank, point lists sorted by _id.
func Canon(r Resp, keepIds map[string]bool) string {
	var v any
	if err := json.Unmarshal(r.Body, &v); err != nil {
		return string(rune(r.Status)) + "|" + string(r.Body)
	}
	v = canonValue(v)
	b, _ := json.Marshal(v)
	s := string(b)
	// random shard ids -> stable placeholders in order of appearance
	seen := map[string]string{}
	s = uuidRe.ReplaceAllStringFunc(s, func(u string) string {
		if keepIds[u] {
			return u
		}
		if p, ok := seen[u]; ok {
			return p
		}
		p := "shard#" + string(rune('a'+len(seen)))
		seen[u] = p
		return p
	})
	return string(rune('0'+r.Status/100)) + httpStatus(r.Status) + "|" + s
}

func httpStatus(c int) string {
	b, _ := json.Marshal(c)
	return string(b)
}

func canonValue(v any) any {
	switch x := v.(type) {
	case map[string]any:
		for k, e := range x {
			x[k] = canonValue(e)
		}
		return x
	case []any:
		for i := range x {
			x[i] = canonValue(x[i])
		}
		// lists of objects with an _id / id are sets: sort them
		sort.SliceStable(x, func(i, j int) bool { return idOf(x[i]) < idOf(x[j]) })
		return x
	}
	return v
}

func idOf(v any) string {
	if m, ok := v.(map[string]any); ok {
		for _, k := range []string{"_id", "id"} {
			if s, ok := m[k].(string); ok {
				return s
			}
		}
	}
	return ""
}
