// Package clusterlib starts real in-process ClusterNodes for the cluster-level
// harnesses (C14–C18).
package clusterlib

import (
	"fmt"
	"net"
	"os"
	"path/filepath"
	"semaverif/engine/pool"
	"time"

	"github.com/semafind/semadb/cluster"
	"github.com/semafind/semadb/models"
)

// Scratch returns the scratch directory of this run.
func Scratch() string {
	if d := os.Getenv("VERIF_SCRATCH"); d != "" {
		return d
	}
	return "/dev/shm"
}

// NodeSpec describes one node.
type NodeSpec struct {
	Name string // logical name (A, B, C)
	Port int
	Dir  string
}

// ShardRoot is the shard manager's root directory of the node: not the node's own root
// directory (the two settings are independent; the sample configuration merely aliases them).
func (n NodeSpec) ShardRoot() string { return filepath.Join(n.Dir, "shards") }

// Host returns the server name of the node as the cluster sees it.
func (n NodeSpec) Host() string { return fmt.Sprintf("127.0.0.1:%d", n.Port) }

var portCounter int

// FreePorts returns n loopback ports from a range private to this process
// (several worker processes allocate ports at the same time; asking the kernel
// for "any free port" and releasing it again races between them).
func FreePorts(n int) []int {
	if pool.InNetNS() {
		// a network namespace of its own: the same ports in every worker and every job, so that
		// server names (and what routing hashes from them) do not depend on where a job runs
		ports := make([]int, n)
		for i := range ports {
			ports[i] = 11001 + i
		}
		return ports
	}
	base := 10000 + (os.Getpid()%200)*100
	var ports []int
	for len(ports) < n {
		p := base + portCounter%100
		portCounter++
		l, err := net.Listen("tcp", fmt.Sprintf("127.0.0.1:%d", p))
		if err != nil {
			continue
		}
		l.Close()
		ports = append(ports, p)
	}
	return ports
}

// Options for a node.
type Options struct {
	MaxShardPointCount int64
	MaxShardSize       int64
	MaxSearchLimit     int
	RpcRetries         int
	RpcTimeout         int
	MaxCacheSize       int64
}

// Config builds the node configuration.
func Config(n NodeSpec, servers []string, o Options) cluster.ClusterNodeConfig {
	if o.MaxShardPointCount == 0 {
		o.MaxShardPointCount = 1000
	}
	if o.MaxShardSize == 0 {
		o.MaxShardSize = 1 << 30
	}
	if o.MaxSearchLimit == 0 {
		o.MaxSearchLimit = 75
	}
	if o.RpcRetries == 0 {
		o.RpcRetries = 1
	}
	if o.RpcTimeout == 0 {
		o.RpcTimeout = 20
	}
	if o.MaxCacheSize == 0 {
		o.MaxCacheSize = -1
	}
	return cluster.ClusterNodeConfig{
		RootDir:    n.Dir,
		RpcHost:    "127.0.0.1",
		RpcPort:    n.Port,
		RpcTimeout: o.RpcTimeout,
		RpcRetries: o.RpcRetries,
		Servers:    servers,
		ShardManager: cluster.ShardManagerConfig{
			RootDir:      n.ShardRoot(), // a directory of its own, as a deployment with shards on a separate volume has
			ShardTimeout: 3600,
			MaxCacheSize: o.MaxCacheSize,
		},
		MaxShardSize:       o.MaxShardSize,
		MaxShardPointCount: o.MaxShardPointCount,
		MaxSearchLimit:     o.MaxSearchLimit,
	}
}

// Start creates (and optionally serves) a node.
func Start(n NodeSpec, servers []string, o Options, serve bool) (*cluster.ClusterNode, error) {
	if err := os.MkdirAll(n.Dir, 0o755); err != nil {
		return nil, err
	}
	c, err := cluster.NewNode(Config(n, servers, o))
	if err != nil {
		return nil, err
	}
	if serve {
		if err := c.Serve(); err != nil {
			return nil, err
		}
		// wait until the RPC port accepts connections
		deadline := time.Now().Add(3 * time.Second)
		for time.Now().Before(deadline) {
			conn, err := net.DialTimeout("tcp", n.Host(), 100*time.Millisecond)
			if err == nil {
				conn.Close()
				break
			}
			time.Sleep(2 * time.Millisecond)
		}
	}
	return c, nil
}

// Plan is the default user plan.
func Plan() models.UserPlan {
	return models.UserPlan{Name: "basic", MaxCollections: 2, MaxCollectionPointCount: 5, MaxPointSize: 1 << 16}
}

// TempRoot creates a scratch root for one world.
func TempRoot(prefix string) string {
	d, err := os.MkdirTemp(Scratch(), prefix)
	if err != nil {
		panic(err)
	}
	return d
}

// NodeDir returns the data dir of a node under a root.
func NodeDir(root, name string) string { return filepath.Join(root, "node"+name) }
