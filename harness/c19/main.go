// C19 — key and value encodings round-trip and preserve order.
// Exhaustive enumeration of stated finite families of values against the real
// encoders/decoders, and of all range/prefix scans over small families on both
// storage backends.
package main

import (
	"bytes"
	"encoding/json"
	"fmt"
	"math"
	"os"
	"path/filepath"
	"sort"
	"strings"

	"github.com/google/uuid"
	"github.com/semafind/semadb/conversion"
	"github.com/semafind/semadb/diskstore"
	"github.com/semafind/semadb/shard/index/inverted"
	"github.com/semafind/semadb/shard/index/text"
	"github.com/semafind/semadb/shard/pointstore"
	"semaverif/engine/harness"
	"semaverif/engine/pool"
)

type job struct {
	Kind string `json:"kind"`
	Lo   uint64 `json:"lo"`
	Hi   uint64 `json:"hi"`
	Arg  int    `json:"arg"`
}

type viol struct {
	Sig    string `json:"sig"`
	Detail string `json:"detail"`
}

type result struct {
	Evals    int64    `json:"evals"`
	Nontriv  int64    `json:"nontriv"`
	Outcomes []string `json:"outcomes"`
	Viols    []viol   `json:"viols"`
	Sample   any      `json:"sample,omitempty"`
}

func (r *result) v(sig, format string, a ...any) {
	if len(r.Viols) < 8 {
		r.Viols = append(r.Viols, viol{sig, fmt.Sprintf(format, a...)})
	}
}

// ---- int64 ----

func intFamily() []int64 {
	set := map[int64]bool{math.MinInt64: true, math.MaxInt64: true, 0: true}
	for k := 0; k < 64; k++ {
		for d := int64(-2); d <= 2; d++ {
			p := int64(1) << uint(k)
			set[p+d] = true
			set[-p+d] = true
		}
	}
	out := make([]int64, 0, len(set))
	for v := range set {
		out = append(out, v)
	}
	sort.Slice(out, func(i, j int) bool { return out[i] < out[j] })
	return out
}

func checkIntSorted(res *result, vals []int64) {
	var prevKey []byte
	for i, v := range vals {
		k, err := inverted.VerifToByteSortable(v)
		if err != nil {
			res.v("int-encode-error", "%d: %v", v, err)
			return
		}
		var back int64
		if err := inverted.VerifFromByteSortable(k, &back); err != nil || back != v {
			res.v("int-roundtrip", "int64 %d encodes to %x and decodes to %d (err %v)", v, k, back, err)
		}
		if i > 0 && bytes.Compare(prevKey, k) >= 0 {
			res.v("int-order", "int64 %d < %d but keys %x >= %x", vals[i-1], v, prevKey, k)
		}
		prevKey = append(prevKey[:0], k...)
		res.Evals++
		if i > 0 && (vals[i-1] < 0) != (v < 0) {
			res.Nontriv++ // sign boundary crossed
		}
	}
}

// ---- float64 ----

func floatFamily() []float64 {
	set := map[uint64]bool{}
	add := func(f float64) { set[math.Float64bits(f)] = true }
	for _, sign := range []uint64{0, 1 << 63} {
		for exp := uint64(1); exp <= 2046; exp++ {
			for _, man := range []uint64{0, 1, 1 << 51, 1<<52 - 1} {
				set[sign|exp<<52|man] = true
			}
		}
		for _, man := range []uint64{1, 2, 1 << 51, 1<<52 - 1} { // subnormals
			set[sign|man] = true
		}
		set[sign] = true // zeros
	}
	add(math.Inf(1))
	add(math.Inf(-1))
	out := make([]float64, 0, len(set))
	for b := range set {
		out = append(out, math.Float64frombits(b))
	}
	// total order: by value, -0.0 before +0.0
	sort.Slice(out, func(i, j int) bool {
		if out[i] != out[j] {
			return out[i] < out[j]
		}
		return math.Signbit(out[i]) && !math.Signbit(out[j])
	})
	return out
}

// checks one float against its predecessor in value order
func checkFloatPair(res *result, prev float64, prevKey []byte, havePrev bool, v float64) []byte {
	k, err := inverted.VerifToByteSortable(v)
	if err != nil {
		res.v("float-encode-error", "%v: %v", v, err)
		return nil
	}
	var back float64
	if err := inverted.VerifFromByteSortable(k, &back); err != nil || !(back == v) {
		// back == v accepts -0.0 decoded as +0.0 (IEEE-equal), rejects NaN
		res.v(floatSig("float-roundtrip", v), "float64 %v (bits %016x) encodes to %x and decodes to %v (err %v)", v, math.Float64bits(v), k, back, err)
	}
	if havePrev {
		c := bytes.Compare(prevKey, k)
		switch {
		case prev < v && c >= 0:
			res.v(floatSig("float-order", prev, v), "float64 %v < %v but keys %x >= %x", prev, v, prevKey, k)
		case prev == v && c != 0:
			// the two zeros: key order must coincide with value order, so equal values share one
			// key - a scan bound of -0.0 must cut exactly where +0.0 does
			res.v(floatSig("float-order", prev, v), "float64 %v == %v (bits %016x, %016x) but their keys differ: %x, %x", prev, v, math.Float64bits(prev), math.Float64bits(v), prevKey, k)
		}
		if math.Signbit(prev) != math.Signbit(v) || math.Float64bits(prev)>>52 != math.Float64bits(v)>>52 {
			res.Nontriv++ // sign or exponent boundary crossed
		}
	}
	res.Evals++
	return k
}

func floatSig(base string, vs ...float64) string {
	for _, v := range vs {
		if v == 0 && math.Signbit(v) {
			return base + "-negative-zero"
		}
	}
	return base
}

// ---- strings ----

var strAlpha = []byte{0x00, 'A', 'a', 'b', 0x7f, 0x80, 0xff}

func strFamily(maxLen int) []string {
	out := []string{""}
	var rec func(prefix []byte)
	rec = func(prefix []byte) {
		if len(prefix) == maxLen {
			return
		}
		for _, c := range strAlpha {
			p := append(append([]byte{}, prefix...), c)
			out = append(out, string(p))
			rec(p)
		}
	}
	rec(nil)
	sort.Strings(out)
	return out
}

// ---- scans ----

type kv struct {
	key []byte
	tag int // index into the value-sorted family
}

func openStores(res *result) (map[string]diskstore.DiskStore, func()) {
	dir := os.Getenv("VERIF_SCRATCH")
	if dir == "" {
		dir = "/dev/shm"
	}
	d, err := os.MkdirTemp(dir, "c19")
	if err != nil {
		panic(err)
	}
	mem, _ := diskstore.Open("")
	bb, err := diskstore.Open(filepath.Join(d, "scan.bbolt"))
	if err != nil {
		panic(err)
	}
	return map[string]diskstore.DiskStore{"memstore": mem, "bbolt": bb}, func() {
		mem.Close()
		bb.Close()
		os.RemoveAll(d)
	}
}

// scanCheck fills a bucket with keys[i] (value-sorted, strictly increasing in
// value) and checks every RangeScan(start,end,inclusive) with bounds from the
// family plus nil bounds, and every PrefixScan, on both backends.
func scanCheck(res *result, family string, keys [][]byte, prefixes [][]byte) {
	stores, closeFn := openStores(res)
	defer closeFn()
	for name, st := range stores {
		err := st.Write(func(bm diskstore.BucketManager) error {
			b, err := bm.Get("fam")
			if err != nil {
				return err
			}
			for i, k := range keys {
				if err := b.Put(k, []byte{byte(i), byte(i >> 8)}); err != nil {
					return err
				}
			}
			return nil
		})
		if err != nil {
			res.v("scan-setup", "%s/%s: %v", name, family, err)
			continue
		}
		st.Read(func(bm diskstore.BucketManager) error {
			b, _ := bm.Get("fam")
			n := len(keys)
			// bounds: nil, every stored key, and - because a bound need not be a stored key -
			// every proper prefix of a stored key, every key extended by a zero byte, and every
			// key with its last byte lowered by one
			var bounds [][]byte
			bounds = append(bounds, nil)
			seenB := map[string]bool{}
			addB := func(b []byte) {
				if len(b) > 0 && !seenB[string(b)] {
					seenB[string(b)] = true
					bounds = append(bounds, append([]byte{}, b...))
				}
			}
			for _, k := range keys {
				addB(k)
			}
			for _, k := range keys {
				for l := 1; l < len(k) && len(k) <= 6; l++ {
					addB(k[:l])
				}
				addB(append(append([]byte{}, k...), 0))
				if len(k) > 0 && k[len(k)-1] > 0 {
					d := append([]byte{}, k...)
					d[len(d)-1]--
					addB(d)
				}
			}
			for _, start := range bounds {
				for _, end := range bounds {
					for _, incl := range []bool{true, false} {
						var got []int
						last := -1
						ordered := true
						b.RangeScan(start, end, incl, func(k, v []byte) error {
							idx := int(v[0]) | int(v[1])<<8
							if idx <= last {
								ordered = false
							}
							last = idx
							got = append(got, idx)
							return nil
						})
						// keys are stored in ascending order: the answer is the index interval [lo, hi]
						lo, hi := 0, n-1
						if start != nil {
							for lo < n && (bytes.Compare(keys[lo], start) < 0 || (!incl && bytes.Equal(keys[lo], start))) {
								lo++
							}
						}
						if end != nil {
							for hi >= 0 && (bytes.Compare(keys[hi], end) > 0 || (!incl && bytes.Equal(keys[hi], end))) {
								hi--
							}
						}
						want := 0
						if hi >= lo {
							want = hi - lo + 1
						}
						ok := len(got) == want && ordered
						if ok && want > 0 && (got[0] != lo || got[len(got)-1] != hi) {
							ok = false
						}
						res.Evals++
						if want > 0 && want < n {
							res.Nontriv++
						}
						if !ok {
							res.v("range-scan-"+family, "%s: RangeScan(start=%x,end=%x,inclusive=%v) over %d %s keys visited %d entries %v, want the %d values #%d..#%d in order", name, start, end, incl, n, family, len(got), clip(got), want, lo, hi)
						}
					}
				}
			}
			for _, p := range prefixes {
				want := 0
				for _, k := range keys {
					if bytes.HasPrefix(k, p) {
						want++
					}
				}
				got := 0
				bad := false
				b.PrefixScan(p, func(k, v []byte) error {
					got++
					if !bytes.HasPrefix(k, p) {
						bad = true
					}
					return nil
				})
				res.Evals++
				if got != want || bad {
					res.v("prefix-scan-"+family, "%s: PrefixScan(%x) visited %d entries (foreign key seen: %v), want %d", name, p, got, bad, want)
				}
			}
			return nil
		})
	}
}

func clip(a []int) []int {
	if len(a) > 12 {
		return a[:12]
	}
	return a
}

// ---- float32 vectors ----

func checkVectors(res *result, lo, hi uint64, step uint64) {
	// every bit pattern in [lo,hi) with stride step, packed into vectors whose
	// lengths cycle through 1..4096
	length := int(lo%4096) + 1
	cur := lo
	for cur < hi {
		n := length
		if rem := (hi - cur + step - 1) / step; uint64(n) > rem {
			n = int(rem)
		}
		if !oneVector(res, cur, n, step) {
			return
		}
		cur += uint64(n) * step
		length = length%4096 + 1
	}
}

// oneVector round-trips one vector of n floats whose bit patterns start at
// first and advance by step (mod 2^32).
func oneVector(res *result, first uint64, n int, step uint64) bool {
	vec := make([]float32, 0, n)
	cur := first
	for len(vec) < n {
		vec = append(vec, math.Float32frombits(uint32(cur)))
		cur += step
	}
	b := conversion.Float32ToBytes(vec)
	if len(b) != 4*len(vec) {
		res.v("vector-length", "vector of %d floats encodes to %d bytes", len(vec), len(b))
		return false
	}
	// the byte layout is little-endian IEEE bits
	for i := range vec {
		if got := uint32(b[4*i]) | uint32(b[4*i+1])<<8 | uint32(b[4*i+2])<<16 | uint32(b[4*i+3])<<24; got != math.Float32bits(vec[i]) {
			res.v("vector-layout", "float32 bits %08x at index %d stored as %08x", math.Float32bits(vec[i]), i, got)
			return false
		}
	}
	stored := append([]byte{}, b...) // what a bucket would hand back
	back := conversion.BytesToFloat32(stored)
	// the storage buffer is reused by bbolt after the transaction: clobber it
	for i := range stored {
		stored[i] = 0xA5
	}
	if len(back) != len(vec) {
		res.v("vector-roundtrip", "vector of %d floats decodes to %d floats", len(vec), len(back))
		return false
	}
	for i := range vec {
		if math.Float32bits(back[i]) != math.Float32bits(vec[i]) {
			res.v("vector-roundtrip", "float32 bits %08x at index %d of a %d-vector decode to %08x (after the source buffer was overwritten)", math.Float32bits(vec[i]), i, len(vec), math.Float32bits(back[i]))
			return false
		}
		sb := conversion.SingleFloat32ToBytes(vec[i])
		if math.Float32bits(conversion.BytesToSingleFloat32(sb)) != math.Float32bits(vec[i]) {
			res.v("single-float-roundtrip", "float32 bits %08x", math.Float32bits(vec[i]))
			return false
		}
	}
	// what a bucket hands back starts at an arbitrary address: the same bytes at
	// every offset 0..7 from an aligned base must decode to the same vector
	for off := 0; off < 8; off++ {
		buf := make([]byte, len(b)+8)
		src := buf[off : off+len(b)]
		copy(src, b)
		got := conversion.BytesToFloat32(src)
		if len(got) != len(vec) {
			res.v("vector-roundtrip-unaligned", "vector of %d floats at source offset %d decodes to %d floats", len(vec), off, len(got))
			return false
		}
		for i := range vec {
			if math.Float32bits(got[i]) != math.Float32bits(vec[i]) {
				res.v("vector-roundtrip-unaligned", "float32 bits %08x at index %d of a %d-vector decode to %08x when the stored bytes start at offset %d from an aligned address", math.Float32bits(vec[i]), i, len(vec), math.Float32bits(got[i]), off)
				return false
			}
		}
	}
	res.Evals += int64(len(vec)) * 9
	res.Nontriv++
	return true
}

func boundaryIds() []uint64 {
	set := map[uint64]bool{0: true, math.MaxUint64: true}
	for k := 0; k < 64; k++ {
		p := uint64(1) << uint(k)
		set[p] = true
		set[p-1] = true
		set[p+1] = true
	}
	for _, b := range []uint64{0x6e, 0x6e6e6e6e6e6e6e6e, 0x0100, 0xff00ff00ff00ff00, 'v', 'q', 'e'} {
		set[b] = true
	}
	out := make([]uint64, 0, len(set))
	for v := range set {
		out = append(out, v)
	}
	sort.Slice(out, func(i, j int) bool { return out[i] < out[j] })
	return out
}

func worker(raw json.RawMessage) (json.RawMessage, error) {
	var j job
	if err := json.Unmarshal(raw, &j); err != nil {
		return nil, err
	}
	res := &result{}
	switch j.Kind {
	case "int-family":
		fam := intFamily()
		checkIntSorted(res, fam)
		// all pairs explicitly
		keys := make([][]byte, len(fam))
		for i, v := range fam {
			keys[i], _ = inverted.VerifToByteSortable(v)
		}
		for a := range fam {
			for b := range fam {
				if (fam[a] < fam[b]) != (bytes.Compare(keys[a], keys[b]) < 0) {
					res.v("int-order", "pair %d,%d", fam[a], fam[b])
				}
				res.Evals++
			}
		}
		res.Sample = map[string]any{"family": "int64 ±2^k+δ", "size": len(fam), "min": fam[0], "max": fam[len(fam)-1]}
	case "int-sweep":
		// all values v<<shift for v in [lo,hi) interpreted as signed 32-bit
		shift := uint(j.Arg)
		var prevKey []byte
		var prev int64
		for u := j.Lo; u < j.Hi; u++ {
			v := int64(int32(uint32(u)^0x80000000)) << shift // ascending in u
			k, _ := inverted.VerifToByteSortable(v)
			var back int64
			inverted.VerifFromByteSortable(k, &back)
			if back != v {
				res.v("int-roundtrip", "int64 %d encodes to %x decodes to %d", v, k, back)
				break
			}
			if u > j.Lo && bytes.Compare(prevKey, k) >= 0 {
				res.v("int-order", "int64 %d < %d but keys %x >= %x", prev, v, prevKey, k)
				break
			}
			prevKey = append(prevKey[:0], k...)
			prev = v
		}
		res.Evals += int64(j.Hi - j.Lo)
		res.Nontriv++
	case "float-family":
		fam := floatFamily()
		var prevKey []byte
		for i, v := range fam {
			var p float64
			if i > 0 {
				p = fam[i-1]
			}
			k := checkFloatPair(res, p, prevKey, i > 0, v)
			if k == nil {
				break
			}
			prevKey = append(prevKey[:0], k...)
		}
		res.Sample = map[string]any{"family": "float64 exponents x sign x mantissa corners + zeros + subnormals + inf", "size": len(fam)}
	case "float-sweep":
		// every float32 bit pattern widened to float64, visited in increasing
		// value order: index u in [lo,hi) over the ordered non-NaN float32s
		var prevKey []byte
		var prev float64
		have := false
		for u := j.Lo; u < j.Hi; u++ {
			// map u (0..2^32) to a float32 in ascending order: flip like a sortable key
			var bits32 uint32
			x := uint32(u)
			if x&0x80000000 != 0 {
				bits32 = x ^ 0x80000000
			} else {
				bits32 = ^x
			}
			f := math.Float32frombits(bits32)
			if f != f {
				have = false
				continue
			}
			v := float64(f)
			k := checkFloatPair(res, prev, prevKey, have, v)
			if k == nil || len(res.Viols) > 0 {
				break
			}
			prevKey = append(prevKey[:0], k...)
			prev = v
			have = true
		}
	case "strings":
		fam := strFamily(4)
		var prevKey []byte
		for i, s := range fam {
			k, _ := inverted.VerifToByteSortable(s)
			var back string
			inverted.VerifFromByteSortable(k, &back)
			if back != s {
				res.v("string-roundtrip", "%q -> %x -> %q", s, k, back)
			}
			if i > 0 && bytes.Compare(prevKey, k) >= 0 {
				res.v("string-order", "%q < %q but keys %x >= %x", fam[i-1], s, prevKey, k)
			}
			prevKey = append(prevKey[:0], k...)
			res.Evals++
			// text index term keys
			tk := text.VerifTermKey(s)
			if t, ok := text.VerifTermFromKey(tk); !ok || t != s {
				res.v("term-key-roundtrip", "term %q -> %x -> %q,%v", s, tk, t, ok)
			}
			if _, ok := text.VerifDocumentIdFromKey(tk); ok && !(len(tk) == 9 && tk[0] == 'd') {
				res.v("term-key-confused-with-doc-key", "term %q", s)
			}
		}
		res.Nontriv += int64(len(fam))
		// long strings: a value may be as long as the plan's point size allows (no
		// key-size ceiling is part of the encoding).  For every length 2^k-1, 2^k,
		// 2^k+1 (k = 5..20): the constant string, its sibling that differs in the
		// LAST byte only, and its extension by one byte - they share a prefix of
		// length-1 bytes, so any encoder that looks at a bounded part of the value
		// merges or misorders them
		for k := 5; k <= 20; k++ {
			for d := -1; d <= 1; d++ {
				L := 1<<uint(k) + d
				base := strings.Repeat("a", L)
				trio := []string{base[:L-1] + "A", base, base + "a"} // ascending
				var keys [][]byte
				for _, v := range trio {
					kk, err := inverted.VerifToByteSortable(v)
					if err != nil {
						res.v("long-string-encode-error", "length %d: %v", len(v), err)
						continue
					}
					var back string
					if err := inverted.VerifFromByteSortable(kk, &back); err != nil || back != v {
						res.v("long-string-roundtrip", "a string of %d bytes decodes to one of %d bytes (err %v)", len(v), len(back), err)
					}
					keys = append(keys, append([]byte{}, kk...))
					res.Evals++
				}
				for i := 1; i < len(keys); i++ {
					if c := bytes.Compare(keys[i-1], keys[i]); c == 0 {
						res.v("long-string-key-collision", "two different strings of %d and %d bytes share a key", len(trio[i-1]), len(trio[i]))
					} else if c > 0 {
						res.v("long-string-order", "strings of %d and %d bytes: value order and key order differ", len(trio[i-1]), len(trio[i]))
					}
				}
				res.Nontriv += 3
			}
		}
		res.Sample = map[string]any{"family": "all strings of length<=4 over {00,A,a,b,7f,80,ff}; long strings of length 2^k+{-1,0,1}, k=5..20, in trios that differ only in or after the last byte", "size": len(fam)}
	case "termkeys":
		// the marker bytes of the text-index keys ('t' ... 's' for terms, 'd' for
		// documents) are themselves legal term bytes: every string of length <= 5
		// over them, and every candidate key of length <= 6
		alpha := []byte{'t', 's', 'd', 'a', 0x00, 0xff}
		var fam [][]byte
		var rec func(prefix []byte, max int)
		rec = func(prefix []byte, max int) {
			fam = append(fam, append([]byte{}, prefix...))
			if len(prefix) == max {
				return
			}
			for _, c := range alpha {
				rec(append(prefix, c), max)
			}
		}
		rec(nil, 6)
		image := map[string]string{}
		for _, b := range fam {
			if len(b) > 5 {
				continue
			}
			s := string(b)
			tk := text.VerifTermKey(s)
			if o, dup := image[string(tk)]; dup {
				res.v("term-key-collision", "terms %q and %q share key %x", o, s, tk)
			}
			image[string(tk)] = s
			if t, ok := text.VerifTermFromKey(tk); !ok || t != s {
				res.v("term-key-roundtrip", "term %q -> %x -> %q,%v", s, tk, t, ok)
			}
			if _, ok := text.VerifDocumentIdFromKey(tk); ok && !(len(tk) == 9 && tk[0] == 'd') {
				res.v("term-key-confused-with-doc-key", "term %q", s)
			}
			res.Evals++
		}
		for _, k := range fam {
			t, ok := text.VerifTermFromKey(k)
			want, in := image[string(k)]
			switch {
			case ok && !in && len(k) <= 6 && !bytes.Equal(text.VerifTermKey(t), k):
				res.v("term-key-decoder-accepts-a-non-key", "key %x decodes to %q whose key is %x", k, t, text.VerifTermKey(t))
			case in && (!ok || t != want):
				res.v("term-key-roundtrip", "key %x of term %q decodes to %q,%v", k, want, t, ok)
			}
			res.Evals++
		}
		res.Nontriv += int64(len(image))
		res.Sample = map[string]any{"family": "all terms of length<=5 and all candidate keys of length<=6 over the key marker bytes {t,s,d} plus {a,00,ff}", "terms": len(image), "keys": len(fam)}
	case "ids":
		ids := boundaryIds()
		seen := map[string]string{}
		for _, id := range ids {
			// plain uint64 codecs
			if conversion.BytesToUint64(conversion.Uint64ToBytes(id)) != id {
				res.v("uint64-roundtrip", "%d", id)
			}
			k, _ := inverted.VerifToByteSortable(id)
			var back uint64
			inverted.VerifFromByteSortable(k, &back)
			if back != id {
				res.v("uint64-sortable-roundtrip", "%d", id)
			}
			dk := text.VerifDocumentKey(id)
			if d, ok := text.VerifDocumentIdFromKey(dk); !ok || d != id {
				res.v("doc-key-roundtrip", "doc id %d -> %x -> %d,%v", id, dk, d, ok)
			}
			if _, ok := text.VerifTermFromKey(dk); ok && !(dk[0] == 't' && dk[len(dk)-1] == 's') {
				res.v("doc-key-confused-with-term-key", "doc id %d", id)
			}
			for s := 0; s < 256; s++ {
				key := conversion.NodeKey(id, byte(s))
				tag := fmt.Sprintf("%d/%d", id, s)
				if other, dup := seen[string(key)]; dup {
					res.v("node-key-collision", "%s and %s share key %x", other, tag, key)
				}
				seen[string(key)] = tag
				for _, s2 := range []int{s, (s + 1) % 256, 'v', 'q', 'e', 'i', 'd'} {
					got, ok := conversion.NodeIdFromKey(key, byte(s2))
					if s2 == s && (!ok || got != id) {
						res.v("node-key-roundtrip", "NodeKey(%d,%d)=%x decodes to %d,%v", id, s, key, got, ok)
					}
					if s2 != s && ok {
						res.v("node-key-suffix-confusion", "NodeKey(%d,%d)=%x accepted for suffix %d", id, s, key, s2)
					}
				}
				res.Evals++
			}
		}
		// sortable uint64 order
		var prevKey []byte
		for i, id := range ids {
			k, _ := inverted.VerifToByteSortable(id)
			if i > 0 && bytes.Compare(prevKey, k) >= 0 {
				res.v("uint64-order", "%d < %d but keys %x >= %x", ids[i-1], id, prevKey, k)
			}
			prevKey = append(prevKey[:0], k...)
		}
		// point keys
		var us []uuid.UUID
		for _, pat := range []byte{0x00, 0x01, 0x6e, 0x70, 0x7f, 0x80, 0xff} {
			var u uuid.UUID
			for i := range u {
				u[i] = pat
			}
			us = append(us, u)
			for pos := 0; pos < 16; pos++ {
				u2 := u
				u2[pos] ^= 0x01
				us = append(us, u2)
			}
		}
		pseen := map[string]string{}
		for _, u := range us {
			for s := 0; s < 256; s++ {
				key := pointstore.PointKey(u, byte(s))
				tag := fmt.Sprintf("%s/%d", u, s)
				if other, dup := pseen[string(key)]; dup && other != tag {
					res.v("point-key-collision", "%s and %s share key %x", other, tag, key)
				}
				pseen[string(key)] = tag
				if len(key) != 18 || key[0] != 'p' || !bytes.Equal(key[1:17], u[:]) || key[17] != byte(s) {
					res.v("point-key-layout", "PointKey(%s,%d)=%x", u, s, key)
				}
				if _, clash := seen[string(key)]; clash {
					res.v("point-key-vs-node-key", "%x", key)
				}
				res.Evals++
			}
		}
		res.Nontriv += int64(len(ids) + len(us))
		// edge lists
		for _, n := range append(seq(0, 64), 4096) {
			edges := make([]uint64, n)
			for i := range edges {
				edges[i] = ids[(i*7+n)%len(ids)]
			}
			b := conversion.EdgeListToBytes(edges)
			back := conversion.BytesToEdgeList(b)
			if len(b) != 8*n || len(back) != n {
				res.v("edge-list-length", "n=%d bytes=%d back=%d", n, len(b), len(back))
				continue
			}
			for i := range edges {
				if back[i] != edges[i] {
					res.v("edge-list-roundtrip", "n=%d index %d: %d -> %d", n, i, edges[i], back[i])
					break
				}
			}
			for off := 1; off < 8; off++ {
				buf := make([]byte, len(b)+8)
				src := buf[off : off+len(b)]
				copy(src, b)
				if got := conversion.BytesToEdgeList(src); fmt.Sprint(got) != fmt.Sprint(edges) && n > 0 {
					res.v("edge-list-roundtrip-unaligned", "n=%d, stored bytes at offset %d from an aligned address: %v -> %v", n, off, edges, got)
					break
				}
			}
			res.Evals++
		}
		res.Sample = map[string]any{"family": "boundary ids x all 256 suffixes; boundary uuids x all 256 suffixes; edge lists 0..64,4096", "ids": len(ids), "uuids": len(us)}
	case "scans":
		// integers
		ints := []int64{math.MinInt64, math.MinInt64 + 1, -1 << 32, -256, -2, -1, 0, 1, 2, 255, 256, 1 << 31, 1 << 32, math.MaxInt64 - 1, math.MaxInt64}
		ik := make([][]byte, len(ints))
		for i, v := range ints {
			ik[i], _ = inverted.VerifToByteSortable(v)
		}
		scanCheck(res, "int64", ik, nil)
		// floats (one zero only: the scan family must be strictly increasing in value)
		fl := []float64{math.Inf(-1), -math.MaxFloat64, -1e10, -2, -1 - 1e-15, -1, -math.SmallestNonzeroFloat64, 0, math.SmallestNonzeroFloat64, 1, 1 + 1e-15, 2, 1e10, math.MaxFloat64, math.Inf(1)}
		fk := make([][]byte, len(fl))
		for i, v := range fl {
			fk[i], _ = inverted.VerifToByteSortable(v)
		}
		scanCheck(res, "float64", fk, nil)
		// strings with prefixes of one another
		ss := strFamily(2)[1:] // drop "": bbolt rejects the empty key
		sk := make([][]byte, len(ss))
		var prefixes [][]byte
		for i, s := range ss {
			sk[i] = []byte(s)
			prefixes = append(prefixes, []byte(s))
		}
		prefixes = append(prefixes, []byte("zz"), []byte{0xff, 0xff, 0xff})
		scanCheck(res, "string", sk, prefixes)
		// a family that is not prefix-closed: strings of length 1 and 3 only over three bytes,
		// so that bounds which are prefixes of stored keys are themselves absent
		var sp [][]byte
		var spPrefixes [][]byte
		for _, s := range strFamily(3) {
			small := true
			for _, c := range []byte(s) {
				if c != strAlpha[0] && c != strAlpha[len(strAlpha)/2] && c != strAlpha[len(strAlpha)-1] {
					small = false
				}
			}
			if small && len(s) >= 1 && len(s) <= 2 {
				spPrefixes = append(spPrefixes, []byte(s))
			}
			if small && (len(s) == 1 || len(s) == 3) {
				sp = append(sp, []byte(s))
			}
		}
		scanCheck(res, "string-sparse", sp, spPrefixes)
		res.Sample = map[string]any{"family": "all RangeScan(start,end,inclusive) with bounds nil / every stored key / every proper prefix of a key / key+00 / key with its last byte lowered, all PrefixScans, memstore and bbolt", "ints": len(ints), "floats": len(fl), "strings": len(ss)}
	case "vector-lengths":
		// one vector of every length Lo..Hi (bit patterns from a counter that
		// visits every exponent), through the same round-trip checks
		for n := int(j.Lo); n <= int(j.Hi); n++ {
			lo := uint64(n) * 0x9E3779B1 % (1 << 32)
			oneVector(res, lo, n, 0x01000193)
			if len(res.Viols) > 0 {
				break
			}
		}
	case "vectors":
		checkVectors(res, j.Lo, j.Hi, uint64(j.Arg))
	}
	return json.Marshal(res)
}

func seq(a, b int) []int {
	var s []int
	for i := a; i <= b; i++ {
		s = append(s, i)
	}
	return s
}

func master(cfg *harness.Config, rep *harness.Report) {
	rep.Rule = "families: int64 ±2^k+δ (k<64,|δ|<=2) with all pairs; float64 all 2046 exponents x sign x 4 mantissa corners + zeros, subnormals, infinities in value order (adjacent pairs => all pairs by transitivity); all strings of length<=4 over 7 bytes; long strings of every length 2^k+{-1,0,1} (k=5..20) in trios that differ only in or after their last byte (round trip, distinct keys, order); text-index term keys for all terms of length<=5 over the key marker bytes {t,s,d,a,00,ff} and the decoder on all candidate keys of length<=6; boundary uint64 ids x all 256 key suffixes; boundary uuids x 256 suffixes; edge lists of length 0..64 and 4096; float32 bit patterns (quick: 2^20 patterns with stride 4096 covering every sign/exponent and 12 mantissa bits, thorough: all 2^32) packed into vectors, plus one vector of every length 1..4096; each decoded from the encoder's buffer and from copies at every source offset 0..7; all range/prefix scans over 15-value numeric families, all strings of length<=2 over 7 bytes and a string family that is not prefix-closed (lengths 1 and 3 over 3 bytes) on memstore and bbolt, with bounds that are stored keys and bounds that are not (prefixes of keys, keys extended by 00, predecessors); thorough adds all int64 of the form v<<s (v any int32, s in {0,31}) and every non-NaN float32 widened to float64. non-trivial = sign/exponent boundary crossed between neighbours, proper sub-range scans, distinct ids"
	rep.Assumptions = []string{"values outside the families (most int64/float64 bit patterns) are covered only in the thorough sweeps stated in the rule", "native little-endian machine: the raw float32 codec is the one selected at init"}
	var jobs []json.RawMessage
	add := func(j job) {
		b, _ := json.Marshal(j)
		jobs = append(jobs, b)
	}
	if cfg.Replay != "" {
		var j job
		if err := harness.LoadReplay(cfg.Replay, &j); err != nil {
			panic(err)
		}
		add(j)
	} else {
		for _, k := range []string{"int-family", "float-family", "strings", "termkeys", "ids", "scans"} {
			add(job{Kind: k})
		}
		// one vector of every length 1..4096 (the pattern sweeps below reach only short vectors per job in the quick tier)
		for c := uint64(0); c < 16; c++ {
			add(job{Kind: "vector-lengths", Lo: c*256 + 1, Hi: (c + 1) * 256})
		}
		if cfg.Quick() {
			// 2^20 patterns: stride 4096 over the 2^32 space, 64 chunks
			for c := uint64(0); c < 64; c++ {
				add(job{Kind: "vectors", Lo: c << 26, Hi: (c + 1) << 26, Arg: 4096})
			}
		} else {
			for c := uint64(0); c < 256; c++ {
				add(job{Kind: "vectors", Lo: c << 24, Hi: (c + 1) << 24, Arg: 1})
				add(job{Kind: "float-sweep", Lo: c << 24, Hi: (c + 1) << 24})
				add(job{Kind: "int-sweep", Lo: c << 24, Hi: (c + 1) << 24, Arg: 0})
				add(job{Kind: "int-sweep", Lo: c << 24, Hi: (c + 1) << 24, Arg: 31})
			}
		}
	}
	p := pool.New(pool.Options{CPUsPerWorker: 1, JobTimeout: 20 * 60 * 1e9})
	results, err := p.RunAll(jobs)
	if err != nil {
		panic(err)
	}
	for _, r := range results {
		var j job
		json.Unmarshal(r.Job, &j)
		if r.Crashed || r.Hung || r.Err != "" {
			rep.Violate(harness.Violation{Sig: "codec-crashed-" + j.Kind, Detail: fmt.Sprintf("crashed=%v hung=%v err=%s stderr=%s", r.Crashed, r.Hung, r.Err, tail(r.Stderr)), Replay: j})
			continue
		}
		var res result
		json.Unmarshal(r.Out, &res)
		rep.Evaluations += res.Evals
		rep.DistinctNontrivial += res.Nontriv
		rep.Outcome(fmt.Sprint(j.Kind, res.Evals, res.Nontriv, len(res.Viols)))
		for _, v := range res.Viols {
			rep.Violate(harness.Violation{Sig: v.Sig, Detail: v.Detail, Replay: j})
		}
		if res.Sample != nil {
			rep.Sample(res.Sample)
		}
	}
	rep.Set("jobs", len(jobs))
}

func tail(s string) string {
	if len(s) > 1500 {
		return s[len(s)-1500:]
	}
	return s
}

func main() {
	harness.Main("C19", worker, master, "model_checking")
}
