// C16 — tenants are isolated from each other.  Non-interference, checked
// incrementally: the interleaved history of two users runs on one real node
// through the assembled HTTP handler chain, and in lock-step each user's own
// sub-history runs alone on a node of its own; every response in the
// interleaved run must equal the response of the solitary run.  Breadth-first
// search over the product alphabet of both users, de-duplicated on the full
// inventory of all three nodes.
package main

import (
	"encoding/json"
	"fmt"
	"os"
	"path/filepath"
	"sort"
	"strings"
	"time"

	"github.com/semafind/semadb/cluster"
	"github.com/semafind/semadb/models"
	cl "semaverif/harness/clusterlib"
	sl "semaverif/harness/shardlib"

	"net/http"

	"semaverif/engine/harness"
	"semaverif/engine/pool"
	"semaverif/engine/seqx"
)

type cfgT struct {
	UserA string   `json:"a"`
	UserB string   `json:"b"`
	ColsA []string `json:"colsA"`
	ColsB []string `json:"colsB"`
}

type opRef struct {
	Name string `json:"name"` // "<A|B>:<verb>:<collection index>"
}

type world struct {
	node *cluster.ClusterNode
	h    http.Handler
	root string
}

func newWorld(tag string) (*world, error) {
	root := cl.TempRoot("c16" + tag)
	spec := cl.NodeSpec{Name: "N", Port: 1, Dir: cl.NodeDir(root, "N")}
	node, err := cl.Start(spec, []string{spec.Host()}, cl.Options{MaxShardPointCount: 1000}, false)
	if err != nil {
		return nil, err
	}
	plans := map[string]models.UserPlan{"basic": {Name: "basic", MaxCollections: 2, MaxCollectionPointCount: 3, MaxPointSize: 1 << 16}}
	return &world{node: node, h: cl.Handler(node, plans), root: root}, nil
}

func (w *world) close() {
	w.node.Close()
	os.RemoveAll(w.root)
}

// files returns the set of shard files (cleaned paths relative to the shard
// root, random shard ids masked) with their sizes.
func (w *world) files() map[string]bool {
	out := map[string]bool{}
	base := filepath.Join(w.root, "nodeN", "shards", cluster.USERCOLSDIR)
	filepath.Walk(base, func(p string, info os.FileInfo, err error) error {
		if err != nil || info.IsDir() {
			return nil
		}
		rel, _ := filepath.Rel(base, p)
		segs := strings.Split(rel, string(filepath.Separator))
		for i, s := range segs {
			if len(s) == 36 && strings.Count(s, "-") == 4 {
				segs[i] = "<shard>"
			}
		}
		out[strings.Join(segs, "/")] = true
		return nil
	})
	return out
}

// inventory: every node-database record and every file under the shard root
func (w *world) inventory() string {
	var parts []string
	filepath.Walk(w.root, func(p string, info os.FileInfo, err error) error {
		if err != nil || info.IsDir() {
			return nil
		}
		rel, _ := filepath.Rel(w.root, p)
		if strings.HasSuffix(rel, "nodedb.bbolt") {
			return nil
		}
		// shard ids are random: keep the directory shape
		segs := strings.Split(rel, string(filepath.Separator))
		for i, s := range segs {
			if len(s) == 36 && strings.Count(s, "-") == 4 {
				segs[i] = "<shard>"
			}
		}
		parts = append(parts, strings.Join(segs, "/"))
		return nil
	})
	sort.Strings(parts)
	return strings.Join(parts, ";")
}

type system struct {
	cfg    cfgT
	both   *world
	alone  map[string]*world
	checks int64
	out    []string
}

func factory(raw json.RawMessage) (seqx.System, error) {
	var c cfgT
	if err := json.Unmarshal(raw, &c); err != nil {
		return nil, err
	}
	s := &system{cfg: c, alone: map[string]*world{}}
	var err error
	if s.both, err = newWorld("both"); err != nil {
		return nil, err
	}
	for _, u := range []string{"A", "B"} {
		if s.alone[u], err = newWorld(u); err != nil {
			return nil, err
		}
	}
	return s, nil
}

const pointID = "10000000-0000-4000-8000-000000000001"

func (s *system) request(user, verb, col string) cl.Req {
	uid := s.cfg.UserA
	if user == "B" {
		uid = s.cfg.UserB
	}
	base := "/v2/collections"
	switch verb {
	case "create":
		return cl.JSON("POST", base, uid, "basic", map[string]any{"id": col, "indexSchema": map[string]any{"tag": map[string]any{"type": "string", "string": map[string]any{"caseSensitive": true}},
			// an index that lives in the node-wide shared cache (every collection of every user has one under the same property name)
			"v": map[string]any{"type": "vectorFlat", "vectorFlat": map[string]any{"vectorSize": 2, "distanceMetric": "euclidean"}}}})
	case "list":
		return cl.JSON("GET", base, uid, "basic", nil)
	case "get":
		return cl.JSON("GET", base+"/"+col, uid, "basic", nil)
	case "delcol":
		return cl.JSON("DELETE", base+"/"+col, uid, "basic", nil)
	case "insert":
		return cl.JSON("POST", base+"/"+col+"/points", uid, "basic", map[string]any{"points": []any{map[string]any{"_id": pointID, "tag": "of-" + user, "owner": user, "v": userVec(user, 1)}}})
	case "insert3":
		var pts []any
		for i := 2; i <= 4; i++ {
			pts = append(pts, map[string]any{"_id": fmt.Sprintf("10000000-0000-4000-8000-00000000000%d", i), "tag": "bulk-" + user, "v": userVec(user, i)})
		}
		return cl.JSON("POST", base+"/"+col+"/points", uid, "basic", map[string]any{"points": pts})
	case "update":
		return cl.JSON("PUT", base+"/"+col+"/points", uid, "basic", map[string]any{"points": []any{map[string]any{"_id": pointID, "tag": "updated-by-" + user}}})
	case "search":
		return cl.JSON("POST", base+"/"+col+"/points/search", uid, "basic", map[string]any{"query": map[string]any{"property": "_id", "string": map[string]any{"value": pointID, "operator": "equals"}}, "select": []string{"*"}, "limit": 10})
	case "searchtag":
		return cl.JSON("POST", base+"/"+col+"/points/search", uid, "basic", map[string]any{"query": map[string]any{"property": "tag", "string": map[string]any{"value": "a", "operator": "greaterThan"}}, "select": []string{"*"}, "limit": 10})
	case "searchvec":
		return cl.JSON("POST", base+"/"+col+"/points/search", uid, "basic", map[string]any{"query": map[string]any{"property": "v", "vectorFlat": map[string]any{"vector": []any{1.0, 1.0}, "operator": "near", "limit": 10}}, "select": []string{"*"}, "limit": 10})
	case "delpoint":
		return cl.JSON("DELETE", base+"/"+col+"/points", uid, "basic", map[string]any{"ids": []string{pointID}})
	}
	panic("verb " + verb)
}

// userVec: the two users store different vectors under the same point ids
func userVec(user string, i int) []any {
	if user == "A" {
		return []any{float64(i), 0.0}
	}
	return []any{0.0, float64(10 * i)}
}

var keep = map[string]bool{pointID: true, "10000000-0000-4000-8000-000000000002": true, "10000000-0000-4000-8000-000000000003": true, "10000000-0000-4000-8000-000000000004": true}

func (s *system) Apply(raw json.RawMessage) []seqx.Viol {
	var ref opRef
	json.Unmarshal(raw, &ref)
	parts := strings.SplitN(ref.Name, ":", 3)
	user, verb := parts[0], parts[1]
	cols := s.cfg.ColsA
	if user == "B" {
		cols = s.cfg.ColsB
	}
	col := ""
	if len(parts) == 3 {
		idx := int(parts[2][0] - '0')
		if idx >= len(cols) {
			return nil // this user has no such collection name in this configuration
		}
		col = cols[idx]
	}
	req := s.request(user, verb, col)
	// an error text may quote the node's own directory (it differs between the worlds by construction)
	got := strings.ReplaceAll(cl.Canon(cl.Do(s.both.h, req), keep), s.both.root, "<root>")
	want := strings.ReplaceAll(cl.Canon(cl.Do(s.alone[user].h, req), keep), s.alone[user].root, "<root>")
	s.checks++
	s.out = append(s.out, got)
	if got != want {
		other := "A"
		if user == "A" {
			other = "B"
		}
		return []seqx.Viol{{Sig: "other-tenant-changes-response:" + verb + ":" + statusClass(got, want), Detail: fmt.Sprintf("user %q issues %s %s: with user %q (%s) active on the same server the answer is\n  %s\nwithout the other user it is\n  %s", s.uid(user), req.Method, req.Path, s.uid(other), other, clip(got), clip(want))}}
	}
	return nil
}

func statusClass(got, want string) string {
	g, w := "", ""
	if i := strings.Index(got, "|"); i > 0 {
		g = got[1:i]
	}
	if i := strings.Index(want, "|"); i > 0 {
		w = want[1:i]
	}
	if g == w {
		return "body-differs"
	}
	return g + "-instead-of-" + w
}

func clip(s string) string {
	if len(s) > 600 {
		return s[:600] + "…"
	}
	return s
}

func (s *system) uid(u string) string {
	if u == "A" {
		return s.cfg.UserA
	}
	return s.cfg.UserB
}

// Check: what is stored on the shared server must be exactly what the two users
// store on their solitary servers (nobody's files appear, vanish or change
// because of the other user).
func (s *system) Check() []seqx.Viol {
	s.checks++
	both := s.both.files()
	want := map[string]bool{}
	for _, u := range []string{"A", "B"} {
		for f := range s.alone[u].files() {
			want[f] = true
		}
	}
	var missing, extra []string
	for f := range want {
		if !both[f] {
			missing = append(missing, f)
		}
	}
	for f := range both {
		if !want[f] {
			extra = append(extra, f)
		}
	}
	sort.Strings(missing)
	sort.Strings(extra)
	if len(missing)+len(extra) > 0 {
		return []seqx.Viol{{Sig: "other-tenant-changes-stored-files", Detail: fmt.Sprintf("users %q and %q on one server: shard files missing compared with each user alone: %v; files only there: %v", s.cfg.UserA, s.cfg.UserB, missing, extra)}}
	}
	return nil
}
func (s *system) Key() string {
	return sl.Hash(s.both.inventory(), s.alone["A"].inventory(), s.alone["B"].inventory(), s.snapshotLists())
}

// snapshotLists adds what the node databases hold (through the API of the
// solitary worlds, which is by construction free of the other user).
func (s *system) snapshotLists() string {
	var out []string
	for _, u := range []string{"A", "B"} {
		r := cl.Do(s.alone[u].h, s.request(u, "list", ""))
		out = append(out, cl.Canon(r, keep))
		cols := s.cfg.ColsA
		if u == "B" {
			cols = s.cfg.ColsB
		}
		for _, c := range cols {
			out = append(out, cl.Canon(cl.Do(s.alone[u].h, s.request(u, "get", c)), keep))
			out = append(out, cl.Canon(cl.Do(s.alone[u].h, s.request(u, "searchtag", c)), keep))
		}
	}
	all := strings.Join(out, "\n")
	for _, u := range []string{"A", "B"} {
		all = strings.ReplaceAll(all, s.alone[u].root, "<root>") // error texts quote the node's directory
	}
	return all
}
func (s *system) Outcome() string { return sl.Hash(strings.Join(s.out, "\n")) }
func (s *system) Checks() int64   { return s.checks }
func (s *system) Terminal() bool  { return false }
func (s *system) Close() {
	s.both.close()
	for _, w := range s.alone {
		w.close()
	}
}

func alphabet() []any {
	var out []any
	for _, u := range []string{"A", "B"} {
		out = append(out, opRef{u + ":list"})
		for c := 0; c < 2; c++ {
			for _, v := range []string{"create", "get", "delcol", "insert", "insert3", "update", "search", "searchtag", "searchvec", "delpoint"} {
				if c == 1 && (v == "update" || v == "insert3" || v == "searchtag" || v == "searchvec") {
					continue
				}
				out = append(out, opRef{fmt.Sprintf("%s:%s:%d", u, v, c)})
			}
		}
	}
	return out
}

func master(cfg *harness.Config, rep *harness.Report) {
	rep.Rule = "user-id pairs incl. ids that are prefixes of one another, ids whose concatenation with a collection name collides with another user's keys (user 'abc' vs user 'ab' + collection 'c12'), '.', '..', ids with space, percent, backslash and non-ASCII, ids that are images of one another under name normalisations (non-portable characters -> '_', case folding, percent-unescaping), ids longer than 255 bytes that agree on their first 255 bytes (and a 255-byte id against its 256-byte extension), ids that are glob patterns matching the other id ('team[1]' / 'team1', 'a?c' / 'abc', '*'); both users use the same collection names and point ids (plus, per pair, a collection named like the other user's id where that is a legal name; one pair addresses \"..%2F<other user>%2F<collection>\"). Breadth-first search over the product alphabet (per user: list, and per collection create / get / delete / insert 1 / insert 3 / update / search by id / filter search / flat vector search (an index that lives in the node-wide shared cache) / delete point) on one real node through the HTTP handler chain; in lock-step each user's sub-history runs alone on its own node; every response of the interleaved run must equal the solitary run's response (status + canonical body). States are de-duplicated on the file inventory of all three nodes plus every list / get / search answer"
	rep.Assumptions = []string{"user ids contain no '/' (the property's precondition)", "requests are issued one at a time: the node database serialises concurrent writers, so interleavings of whole requests are the schedule space at this level", "shard uuids are random and compared by rank"}
	p := pool.New(pool.Options{CPUsPerWorker: 2, JobTimeout: 120 * time.Second})
	if cfg.Replay != "" {
		var r seqx.Replay
		if err := harness.LoadReplay(cfg.Replay, &r); err != nil {
			panic(err)
		}
		seqx.ReplayOne(rep, p, r)
		return
	}
	depth := 6
	if !cfg.Quick() {
		depth = 8
	}
	pairs := []cfgT{
		{"a", "b", []string{"col", "colx"}, []string{"col", "colx"}},
		{"a", "ab", []string{"col", "bcol"}, []string{"col", "colx"}},
		{"abc", "ab", []string{"c12", "col"}, []string{"cc12", "c12"}},
		{".", "xyz", []string{"xyz", "col"}, []string{"col", "abc"}},
		{"..", "xyz", []string{"xyz", "userCollections"[:3] + "col"}, []string{"col", "abc"}},
		{"a b", "a", []string{"col", "colx"}, []string{"col", "b"}},
		{"a%2Fb", "a", []string{"col"}, []string{"col", "b"}},
		{"a\\b", "a", []string{"col"}, []string{"col"}},
		{"üser", "user", []string{"col"}, []string{"col"}},
		{"alice", "alice ", []string{"col"}, []string{"col"}},
		// pairs in which one id is the image of the other under a normalisation a
		// storage layer might apply to names (portable file names, case folding, unescaping)
		{"auth0|acme", "auth0_acme", []string{"col", "docs"}, []string{"col", "docs"}},
		{"a@b.c", "a_b.c", []string{"col"}, []string{"col"}},
		{"Alice", "alice", []string{"col"}, []string{"col"}},
		{"a%20b", "a b", []string{"col"}, []string{"col"}},
		// each user has (or asks for) a collection named exactly like the other user's id
		{"alice", "bob", []string{"bob", "col"}, []string{"alice", "col"}},
		// ids that are patterns (glob / regexp syntax) matching the other id
		{"team[1]", "team1", []string{"col"}, []string{"col"}},
		{"a?c", "abc", []string{"col"}, []string{"col"}},
		{"*", "abc", []string{"col"}, []string{"col"}},
		// collection ids that try to step out of the user's key space: "..%2F<other user>%2F<collection>"
		// reaches the handlers as "../bob/col" (one path segment, 10 characters: inside the id length limits)
		{"alice", "bob", []string{"col", "..%2Fbob%2Fcol"}, []string{"col", "..%2Falice%2Fcol"}},
	}
	// ids longer than a file-name component may be (255 bytes on common file systems): whatever the node does
	// with them - today every shard operation fails with ENAMETOOLONG - two ids that agree on their first 255
	// bytes must not meet in one directory or key
	long := strings.Repeat("u", 255)
	pairs = append(pairs,
		cfgT{long + strings.Repeat("A", 45), long + strings.Repeat("B", 45), []string{"col"}, []string{"col"}},
		cfgT{long, long + "x", []string{"col"}, []string{"col"}})
	var specs []seqx.Spec
	for _, pr := range pairs {
		specs = append(specs, seqx.Spec{Name: fmt.Sprintf("users %.40q and %.40q (%d / %d bytes)", pr.UserA, pr.UserB, len(pr.UserA), len(pr.UserB)), Cfg: pr, Alphabet: alphabet(), Depth: depth, Dedup: true})
	}
	seqx.Explore(cfg, rep, p, specs)
}

func main() {
	harness.Main("C16", seqx.Worker(factory), master, "model_checking")
}
