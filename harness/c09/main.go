// C09 — concurrent searches and writes are safe and every search sees
// committed data.  Stateless preemption-bounded search over the interleavings
// of searcher goroutines and one writer on a REAL file-backed shard with a
// shared cache.  Scheduling points: the searchers' storage operations
// (transaction begin / bucket open / every n-th Get / end, via the storage
// proxy), every lock and atomic operation of the real cache manager (shims),
// and for the writer its transaction begin / function-returned / commit
// finished plus the cache-manager operations of its index pipeline.
package main

import (
	"encoding/json"
	"fmt"
	"os"
	"path/filepath"
	"runtime"
	"sort"
	"strconv"
	"strings"
	"sync"
	"time"

	"github.com/semafind/semadb/diskstore"
	"github.com/semafind/semadb/models"
	"github.com/semafind/semadb/shard"
	"github.com/semafind/semadb/shard/cache"
	"github.com/semafind/semadb/zzverif/vsched"

	"semaverif/engine/faultx"
	"semaverif/engine/harness"
	"semaverif/engine/pool"
	"semaverif/engine/schedx"
	"semaverif/harness/schedlib"
	sl "semaverif/harness/shardlib"
)

// Program is one exploration unit.
type Program struct {
	Searchers []string `json:"searchers"`      // vamana | vamana-filter | text | string
	Writer    string   `json:"writer"`         // none | ins2 | updvec | del1 | del-ins
	// Writer2: a second writer thread with one batch (two-writer programs have no searchers and one
	// batch per writer): ins57-other | upd57 | del57 | ins2.  The storage engine admits one write
	// transaction at a time, so the outcome must be that of ONE of the two serial orders.
	Writer2 string `json:"writer2,omitempty"`
	Start     string   `json:"start"`          // cold | warm | partial
	GetEvery  int      `json:"getEvery"`       // every n-th Get of a read transaction is a scheduling point
	Free      bool     `json:"free,omitempty"` // race pass: plain goroutines under the race detector, no scheduler
	// CacheLimit: size limit of the shared cache manager in bytes (0 = unlimited as before).
	// With a limit, every finished cache access measures the cached indexes (the prune pass).
	CacheLimit int64 `json:"cacheLimit,omitempty"`
	// TwoCaches: the shard has a second cached index (a flat vector index "fl" next to the graph
	// index), so that a request on one cache can finish - and, with a limit, run the prune pass
	// over all caches - while a write is inside the other.
	TwoCaches bool `json:"twoCaches,omitempty"`
}

// twoCaches is the schema variant of the execution in progress (a worker runs one at a time).
var twoCaches bool

const prop = "vec"

func schema() models.IndexSchema {
	if twoCaches {
		twoCaches = false
		sc := schema()
		twoCaches = true
		sc["fl"] = models.IndexSchemaValue{Type: models.IndexTypeVectorFlat, VectorFlat: &models.IndexVectorFlatParameters{VectorSize: 2, DistanceMetric: models.DistanceEuclidean}}
		return sc
	}
	return models.IndexSchema{
		prop:  {Type: models.IndexTypeVectorVamana, VectorVamana: &models.IndexVectorVamanaParameters{VectorSize: 2, DistanceMetric: models.DistanceEuclidean, SearchSize: 75, DegreeBound: 64, Alpha: 1.2}},
		"cat": {Type: models.IndexTypeString, String: &models.IndexStringParameters{CaseSensitive: true}},
		"txt": {Type: models.IndexTypeText, Text: &models.IndexTextParameters{Analyser: "standard"}},
	}
}

func doc(i int) sl.Doc {
	if twoCaches {
		twoCaches = false
		d := doc(i)
		twoCaches = true
		d["fl"] = d[prop]
		return d
	}
	if i > basePoints {
		// points the writer adds land next to the query vectors, so that a
		// search that sees them (or their reused node ids) returns them
		return sl.Doc{prop: []float32{2 + float32(i-56)*0.1, 1}, "cat": "c1", "txt": "quick fox", "rev": int64(0)}
	}
	return sl.Doc{prop: []float32{float32(i), float32(i % 3)}, "cat": fmt.Sprintf("c%d", i%2), "txt": []string{"quick fox", "lazy dog", "quick dog"}[i%3], "rev": int64(0)}
}

func scratch() string {
	if d := os.Getenv("VERIF_SCRATCH"); d != "" {
		return d
	}
	return "/dev/shm"
}

var baseFiles = map[bool]string{} // prepared database per schema variant, copied for every execution

// basePoints: more points than the small search window visits, so that one
// searcher leaves part of the shared graph cache unloaded for the other
const basePoints = 48

func prepareBase() {
	dir, err := os.MkdirTemp(scratch(), "c09base")
	if err != nil {
		panic(err)
	}
	baseFile := filepath.Join(dir, "base.bbolt")
	baseFiles[twoCaches] = baseFile
	col := models.Collection{UserId: "u", Id: "col", IndexSchema: schema(), UserPlan: models.UserPlan{MaxPointSize: 1 << 20}}
	s, err := shard.NewShard(baseFile, col, cache.NewManager(-1))
	if err != nil {
		panic(err)
	}
	var pts []models.Point
	for i := 1; i <= basePoints; i++ {
		pts = append(pts, models.Point{Id: sl.UUID(i), Data: sl.Encode(doc(i))})
	}
	if err := s.InsertPoints(pts); err != nil {
		panic(err)
	}
	s.Close()
}

func copyFile(src, dst string) {
	b, err := os.ReadFile(src)
	if err != nil {
		panic(err)
	}
	if err := os.WriteFile(dst, b, 0o644); err != nil {
		panic(err)
	}
}

type batch struct {
	name string
	ops  []sl.Op
}

func writerBatches(kind string) []sl.Op {
	switch kind {
	case "ins2":
		return []sl.Op{{Name: "ins57,58", Kind: "ins", Ids: []int{57, 58}, Docs: []sl.Doc{doc(57), doc(58)}}}
	case "updvec":
		return []sl.Op{{Name: "upd2(vector,rev)", Kind: "upd", Ids: []int{2}, Docs: []sl.Doc{{prop: []float32{0.5, 0.5}, "rev": int64(1)}}}}
	case "del1":
		return []sl.Op{{Name: "del3", Kind: "del", Ids: []int{3}}}
	case "ins2-storage-fault":
		// an insert that meets a storage error when the counters are written,
		// i.e. after the index pipeline has applied the batch to the shared cache
		return []sl.Op{{Name: "ins57,58 !storage-fault", Kind: "ins", Ids: []int{57, 58}, Docs: []sl.Doc{doc(57), doc(58)}}}
	case "ins57-other":
		// shares id 57 with ins2, under another document, and brings a point of its own
		return []sl.Op{{Name: "ins57(other doc),60", Kind: "ins", Ids: []int{57, 60}, Docs: []sl.Doc{{prop: []float32{2.25, 1}, "cat": "c0", "txt": "lazy dog", "rev": int64(7)}, doc(60)}}}
	case "upd57":
		// skipped if 57 is unknown when it runs, applied if ins2 committed first
		return []sl.Op{{Name: "upd57,2(rev)", Kind: "upd", Ids: []int{57, 2}, Docs: []sl.Doc{{"rev": int64(5)}, {"rev": int64(5)}}}}
	case "del57":
		return []sl.Op{{Name: "del57,3", Kind: "del", Ids: []int{57, 3}}}
	case "del-ins":
		return []sl.Op{{Name: "del3", Kind: "del", Ids: []int{3}}, {Name: "ins59(reuses node id)", Kind: "ins", Ids: []int{59}, Docs: []sl.Doc{doc(59)}}}
	}
	return nil
}

func query(kind string) models.Query {
	switch kind {
	case "vamana":
		return models.Query{Property: prop, VectorVamana: &models.SearchVectorVamanaOptions{Vector: []float32{2.2, 1.1}, Operator: models.OperatorNear, SearchSize: 75, Limit: 10}}
	case "vamana-small":
		return models.Query{Property: prop, VectorVamana: &models.SearchVectorVamanaOptions{Vector: []float32{30.2, 1.1}, Operator: models.OperatorNear, SearchSize: 25, Limit: 1}}
	case "vamana-filter":
		f := sl.IdQuery(1, 2, 3, 57)
		return models.Query{Property: prop, VectorVamana: &models.SearchVectorVamanaOptions{Vector: []float32{2.2, 1.1}, Operator: models.OperatorNear, SearchSize: 75, Limit: 10, Filter: &f}}
	case "flat":
		return models.Query{Property: "fl", VectorFlat: &models.SearchVectorFlatOptions{Vector: []float32{2.2, 1.1}, Operator: models.OperatorNear, Limit: 10}}
	case "text":
		return models.Query{Property: "txt", Text: &models.SearchTextOptions{Value: "quick dog", Operator: models.OperatorContainsAny, Limit: 10}}
	case "string":
		return models.Query{Property: "cat", String: &models.SearchStringOptions{Value: "c1", Operator: models.OperatorEquals}}
	}
	panic("unknown searcher " + kind)
}

var execCount int

func run(raw json.RawMessage, prefix []string) (*vsched.Trace, []schedlib.V, string) {
	var p Program
	if err := json.Unmarshal(raw, &p); err != nil {
		panic(err)
	}
	twoCaches = p.TwoCaches
	if baseFiles[twoCaches] == "" {
		prepareBase()
	}
	baseFile := baseFiles[twoCaches]
	dir, err := os.MkdirTemp(scratch(), "c09")
	if err != nil {
		panic(err)
	}
	defer os.RemoveAll(dir)
	path := filepath.Join(dir, "sharddb.bbolt")
	copyFile(baseFile, path)
	var viols []schedlib.V
	var hmu sync.Mutex // harness bookkeeping (uncontended under the scheduler; needed by the free-running race pass)
	fail := func(sig, format string, a ...any) {
		hmu.Lock()
		defer hmu.Unlock()
		if len(viols) < 8 {
			viols = append(viols, schedlib.V{Sig: sig, Detail: fmt.Sprintf(format, a...)})
		}
	}
	col := models.Collection{UserId: "u", Id: "col", IndexSchema: schema(), UserPlan: models.UserPlan{MaxPointSize: 1 << 20}}
	mgrSize := int64(-1)
	if p.CacheLimit > 0 {
		mgrSize = p.CacheLimit
	}
	mgr := cache.NewManager(mgrSize)
	s, err := shard.NewShard(path, col, mgr)
	if err != nil {
		panic(err)
	}
	var proxy *faultx.Proxy
	s.VerifWrapStore(func(d diskstore.DiskStore) diskstore.DiskStore {
		proxy = faultx.Wrap(d)
		return proxy
	})
	proxy.TrackValues = true
	// committed states S0, S1, ...
	model := sl.NewModel(schema(), 1<<20)
	for i := 1; i <= basePoints; i++ {
		model.Docs[i] = sl.Canon(doc(i))
	}
	snap := func() map[int]sl.Doc {
		m := map[int]sl.Doc{}
		for k, v := range model.Docs {
			m[k] = v
		}
		return m
	}
	states := []map[int]sl.Doc{snap()}
	commits := 0 // write transactions whose commit has finished
	switch p.Start {
	case "warm":
		for _, k := range []string{"vamana", "vamana-filter"} {
			s.SearchPoints(models.SearchRequest{Query: query(k), Limit: 10})
		}
		if twoCaches {
			s.SearchPoints(models.SearchRequest{Query: query("flat"), Limit: 10})
		}
	case "partial":
		s.SearchPoints(models.SearchRequest{Query: query("vamana-filter"), Limit: 10})
	}
	getEvery := p.GetEvery
	if getEvery <= 0 {
		getEvery = 4
	}
	// commit count at the begin of the latest read transaction of each goroutine
	readBegin := map[uint64]int{}
	proxy.Hook = func(pt faultx.Point) {
		if !pt.Writable && pt.Kind == faultx.KBegin {
			g := curGoid()
			hmu.Lock()
			readBegin[g] = commits
			hmu.Unlock()
		}
		if !vsched.Controlled() {
			return
		}
		if pt.Writable {
			switch pt.Kind {
			case faultx.KBegin, faultx.KReturn:
				vsched.Point("write-tx " + pt.Kind)
			case faultx.KEnd:
				if pt.Failed {
					vsched.Point("write-tx rolled back")
				} else {
					hmu.Lock()
					commits++
					hmu.Unlock()
					vsched.Point("write-tx committed")
				}
			}
			return
		}
		switch pt.Kind {
		case faultx.KBegin, faultx.KReturn, faultx.KEnd, faultx.KOpen:
			vsched.Point("read-tx " + pt.Kind + " " + pt.Bucket)
		case faultx.KGet:
			if pt.Ordinal%getEvery == 1 || getEvery == 1 {
				vsched.Point("read-tx Get " + pt.Bucket)
			}
		default:
			vsched.Point("read-tx " + pt.Kind + " " + pt.Bucket)
		}
	}
	var outcome []string
	answered := map[int][]int{} // searcher index -> sorted ids it returned
	batches := writerBatches(p.Writer)
	batches2 := writerBatches(p.Writer2)
	two := len(batches2) > 0
	if two && (len(batches) != 1 || len(batches2) != 1 || len(p.Searchers) != 0) {
		panic("two-writer programs: one batch per writer, no searchers")
	}
	twoGot := make([]*sl.Result, 2)
	var freeWG sync.WaitGroup
	spawn := func(sc *vsched.Sched, name string, fn func()) {
		if p.Free {
			freeWG.Add(1)
			go func() { defer freeWG.Done(); fn() }()
			return
		}
		sc.Go(name, fn)
	}
	body := func(sc *vsched.Sched) {
		for i, kind := range p.Searchers {
			i, kind := i, kind
			name := fmt.Sprintf("S%d", i+1)
			spawn(sc, name, func() {
				vsched.Point("search-begin")
				hmu.Lock()
				from := commits
				hmu.Unlock()
				me := curGoid()
				res, err := s.SearchPoints(models.SearchRequest{Query: query(kind), Select: []string{"*"}, Limit: 10})
				hmu.Lock()
				to := commits
				snapAt, hasSnap := readBegin[me]
				hmu.Unlock()
				if err != nil {
					msg := err.Error()
					if i := strings.LastIndex(msg, ": "); i >= 0 {
						msg = msg[i+2:]
					}
					if msg == "point does not exist" && to == from {
						// the known mechanism needs a commit between the search's
						// snapshot and its cache access; without one it is something else
						msg += ":no-commit-during-the-search"
					} else if msg == "point does not exist" && hasSnap && to == snapAt {
						// ... and that snapshot is the one of the read transaction the
						// search failed in: no commit since *it* began means the ids
						// came from an earlier transaction of the same search
						msg += ":no-commit-since-the-failing-read-transaction-began"
					}
					fail("search-failed-spuriously:"+msg, "%s (%s) running concurrently failed: %v (commits finished before / after the search: %d / %d)", name, kind, err, from, to)
					hmu.Lock()
					outcome = append(outcome, name+":error")
					hmu.Unlock()
					return
				}
				// every returned point was committed-live at some moment during the search
				var ids []int
				for _, r := range res {
					id := sl.UUIDIndex(r.Id)
					ids = append(ids, id)
					if r.DecodedData == nil && proxy.AliasesEndedTx(r.Point.Data) {
						// do not touch it: the mapping may already be gone
						fail("search-result-points-into-ended-transaction", "%s (%s): the document of point %d is returned as a slice of the storage engine's memory map although the read transaction has ended; a concurrent write that grows or reuses the file unmaps / overwrites it (SIGSEGV or a foreign document when the caller encodes the response)", name, kind, id)
						continue
					}
					d, _ := sl.ResultDoc(r)
					d = sl.Canon(d)
					ok := false
					hmu.Lock()
					for t := from; t <= to && t < len(states); t++ {
						if want, live := states[t][id]; live && sl.DocEqual(want, d) {
							ok = true
						}
					}
					// the writer may have committed storage but not yet be counted: allow the next state too
					if !ok && to+1 < len(states) {
						if want, live := states[to+1][id]; live && sl.DocEqual(want, d) {
							ok = true
						}
					}
					hmu.Unlock()
					if !ok {
						fail("search-returned-uncommitted-or-dead-point", "%s (%s) returned point %d with document %s, which is in none of the committed states %d..%d that existed during the search", name, kind, id, sl.DocString(d), from, to)
					}
				}
				sort.Ints(ids)
				hmu.Lock()
				outcome = append(outcome, fmt.Sprintf("%s:%v@%d-%d", name, ids, from, to))
				answered[i] = ids
				hmu.Unlock()
			})
		}
		if two {
			for w, bs := range [][]sl.Op{batches, batches2} {
				w, op := w, bs[0]
				spawn(sc, []string{"W", "W2"}[w], func() {
					in := &sl.Inst{Shard: s}
					vsched.Point("write-begin " + op.Name)
					got := in.ApplyImpl(op)
					hmu.Lock()
					twoGot[w] = &got
					hmu.Unlock()
				})
			}
		} else if len(batches) > 0 {
			spawn(sc, "W", func() {
				in := &sl.Inst{Shard: s}
				for _, op := range batches {
					vsched.Point("write-begin " + op.Name)
					if strings.HasSuffix(op.Name, "!storage-fault") {
						proxy.Arm(&faultx.Fault{Bucket: "internal", Kind: faultx.KPut, Ordinal: 1, Action: "fail"}, "")
						got := in.ApplyImpl(op)
						fired := proxy.Fired()
						proxy.Arm(nil, "")
						if fired && got.Err == nil {
							fail("writer:storage-error-swallowed", "%s met an injected storage error but reported success", op.Name)
						}
						continue // nothing was committed: the model and the committed states stay as they are
					}
					hmu.Lock()
					exp := model.Apply(op)
					// the state this batch commits, recorded before it can become visible
					states = append(states, snap())
					hmu.Unlock()
					got := in.ApplyImpl(op)
					if sig, detail := sl.CompareResult(op, exp, got); sig != "" {
						fail("writer:"+sig, "%s", detail)
					}
				}
			})
		}
	}
	var tr *vsched.Trace
	if p.Free {
		// race pass: the same thread bodies as plain goroutines, no controller
		body(nil)
		freeWG.Wait()
		tr = &vsched.Trace{}
	} else {
		tr = vsched.Run(vsched.Options{MaxSteps: 1500, Patience: 5 * time.Second, Teardown: true}, prefix, body)
	}
	late := proxy.TakeLate()
	if len(late) > 0 {
		// a search that failed in the same execution failed because the proxy
		// refused the read (without the proxy: undefined behaviour in bbolt)
		for i := range viols {
			if strings.HasPrefix(viols[i].Sig, "search-failed-spuriously:") {
				viols[i].Sig += ":after-read-through-ended-transaction"
			}
		}
	}
	for _, l := range late {
		kind := "read-only"
		if l.Writable {
			kind = "write"
		}
		fail(fmt.Sprintf("storage-used-after-%s-transaction-ended:%s", kind, siteClass(l.Site)), "a %s on bucket %q arrived on a %s transaction that had already ended, from %s (undefined behaviour inside bbolt without the proxy)", l.Kind, l.Bucket, kind, l.Site)
	}
	proxy.Hook = nil
	// after the writers finished: state = sequential application in commit order, warm = cold
	if !tr.Deadlock && !tr.Unsettled && tr.Diverged == "" && !tr.Horizon {
		final := &sl.Inst{Shard: s, Cfg: sl.InstCfg{Schema: schema()}}
		uni := []int{57, 58, 59}
		for i := 1; i <= basePoints; i++ {
			uni = append(uni, i)
		}
		uni = append(uni, 60)
		o := &sl.Obs{}
		if two {
			// one write transaction at a time: what the two calls reported and what is stored must be
			// what ONE of the two serial orders gives (brute force over the two orders)
			ops := []sl.Op{batches[0], batches2[0]}
			var why []string
			found := false
			for _, ord := range [][2]int{{0, 1}, {1, 0}} {
				m := sl.NewModel(schema(), 1<<20)
				for k, v := range model.Docs {
					m.Docs[k] = v
				}
				var bad []string
				for _, w := range ord {
					exp := m.Apply(ops[w])
					if twoGot[w] == nil {
						bad = append(bad, ops[w].Name+": did not return")
					} else if sig, detail := sl.CompareResult(ops[w], exp, *twoGot[w]); sig != "" {
						bad = append(bad, sig+": "+detail)
					}
				}
				oo := &sl.Obs{}
				final.PointsBattery(oo, m, uni)
				final.GraphCheck(oo, m, prop, *schema()[prop].VectorVamana)
				for _, v := range oo.Viols {
					bad = append(bad, "final-state:"+v.Sig+": "+v.Detail)
				}
				if len(bad) == 0 {
					found = true
					hmu.Lock()
					outcome = append(outcome, fmt.Sprintf("serial-order:%s-then-%s", ops[ord[0]].Name, ops[ord[1]].Name))
					hmu.Unlock()
					break
				}
				why = append(why, fmt.Sprintf("[%s then %s] %s", ops[ord[0]].Name, ops[ord[1]].Name, strings.Join(bad, " ; ")))
			}
			if !found {
				fail("two-writers-match-no-serial-order", "the results of the two concurrent write calls and the stored state afterwards equal neither serial order: %s", clipStr(strings.Join(why, "  ||  "), 3000))
			}
		} else {
			final.PointsBattery(o, model, uni)
			final.GraphCheck(o, model, prop, *schema()[prop].VectorVamana)
		}
		for _, v := range o.Viols {
			fail("final-state:"+v.Sig, "%s", v.Detail)
		}
		if len(batches) == 0 && len(late) == 0 {
			// no writer: the stored state never changed, so every concurrent search
			// must have given the answer the same search gives alone (C03 / C04 / C05
			// define that answer; an interleaving must not change it)
			for i, kind := range p.Searchers {
				got, ok := answered[i]
				if !ok {
					continue
				}
				res, err := s.SearchPoints(models.SearchRequest{Query: query(kind), Select: []string{"*"}, Limit: 10})
				if err != nil {
					continue
				}
				var alone []int
				for _, r := range res {
					alone = append(alone, sl.UUIDIndex(r.Id))
				}
				sort.Ints(alone)
				if fmt.Sprint(alone) != fmt.Sprint(got) {
					fail("concurrent-search-differs-from-the-same-search-alone", "S%d (%s) returned points %v while running concurrently with the other searches (no writer), and %v when repeated alone on the same state", i+1, kind, got, alone)
				}
			}
		}
		warm, werr := final.Observe(uni, []models.Query{query("vamana"), query("vamana-filter"), query("text"), query("string")}, false)
		closed := make(chan struct{})
		go func() { s.Close(); close(closed) }()
		select {
		case <-closed:
		case <-time.After(3 * time.Second):
			fail("shard-close-blocked", "all threads finished but closing the shard blocks: a storage transaction is still open")
			pool.RequestRecycle()
			sort.Strings(outcome)
			return tr, viols, strings.Join(outcome, ";")
		}
		s2, err := shard.NewShard(path, col, cache.NewManager(-1))
		if err != nil {
			fail("reopen-failed", "%v", err)
		} else {
			cold, cerr := (&sl.Inst{Shard: s2}).Observe(uni, []models.Query{query("vamana"), query("vamana-filter"), query("text"), query("string")}, false)
			if werr != nil || cerr != nil || warm != cold {
				fail("warm-answers-differ-from-cold", "after the concurrent run the warm instance answers\n %s (err %v)\nbut a cold reopen answers\n %s (err %v)", warm, werr, cold, cerr)
			}
			s2.Close()
		}
	} else {
		// an execution that did not run to completion may have left a
		// transaction open: closing would block; drop the worker instead
		pool.RequestRecycle()
	}
	execCount++
	if runtime.NumGoroutine() > 60 || execCount > 200 {
		pool.RequestRecycle()
	}
	sort.Strings(outcome)
	return tr, viols, strings.Join(outcome, ";")
}

func clipStr(s string, n int) string {
	if len(s) > n {
		return s[:n] + "…"
	}
	return s
}

// curGoid returns the id of the calling goroutine (parsed from its stack
// header; used only at transaction begin, not on a hot path).
func curGoid() uint64 {
	var buf [64]byte
	n := runtime.Stack(buf[:], false)
	f := strings.Fields(string(buf[:n]))
	if len(f) < 2 {
		return 0
	}
	id, _ := strconv.ParseUint(f[1], 10, 64)
	return id
}

func siteClass(site string) string {
	parts := strings.Split(site, " < ")
	if len(parts) > 2 {
		parts = parts[:2]
	}
	return strings.Join(parts, "<")
}

func master(cfg *harness.Config, rep *harness.Report) {
	rep.Rule = "programs: searcher sets from {graph search, graph search with _id pre-filter, text, string filter} (2 searchers; thorough 3) x writer {none, insert 2, update a vector, delete 1, delete then insert with node-id reuse, insert 2 meeting a storage error after the index work} x cache state {cold, partially warm, warm} (two programs with a finite cache size limit, so that the prune pass runs); all interleavings with at most `bound` preemptions at the scheduling points named in the header. Oracle: no storage use after a transaction ended, no failed search, without a writer every concurrent search returns what the same search returns alone, every returned (id, document) is in a committed state that existed during the search, after the run point store + graph = sequential model in commit order and warm answers = cold answers"
	rep.Assumptions = []string{"the writer's own storage operations are not scheduling points (bbolt hides uncommitted pages from readers; readers and the writer interact through the cache locks, the commit instant and the cache contents)", "one cached index in the schema so that the writer's cache operations come from one goroutine", "map-iteration order inside the code under test is not enumerated"}
	p := pool.New(pool.Options{CPUsPerWorker: 2, JobTimeout: 300 * time.Second})
	if cfg.Replay != "" {
		var r schedx.Replay
		if err := harness.LoadReplay(cfg.Replay, &r); err != nil {
			panic(err)
		}
		for i := 0; i < 5; i++ {
			tr, viols, out := run(r.Program, r.Choices)
			fmt.Printf("replay %d: %d steps, diverged=%q deadlock=%v unsettled=%v horizon=%v stuck=%v outcome=%s, %d violation(s)\n", i+1, len(tr.Steps), tr.Diverged, tr.Deadlock, tr.Unsettled, tr.Horizon, tr.Stuck, out, len(viols))
			if tr.Deadlock || tr.Unsettled {
				fmt.Println(tr.Dump)
				break
			}
			if i == 4 {
				for _, v := range viols {
					rep.Violate(harness.Violation{Sig: v.Sig, Detail: v.Detail, Replay: r})
				}
			}
		}
		return
	}
	if cfg.Extra["race"] != "" {
		cfg.NoEvidence = true
		var progs []any
		n := 0
		for _, start := range []string{"cold", "warm"} {
			for _, w := range []string{"none", "ins2", "updvec", "del-ins", "ins2-storage-fault"} {
				for _, ss := range [][]string{{"vamana-small", "vamana", "vamana-filter"}, {"vamana", "text", "string"}} {
					n++
					for r := 0; r < 25; r++ {
						progs = append(progs, Program{Searchers: ss, Writer: w, Start: start, GetEvery: 8, Free: true})
					}
				}
			}
		}
		old, _ := filepath.Glob(schedlib.RaceLogPrefix() + ".*")
		for _, f := range old {
			os.Remove(f)
		}
		rp := pool.New(pool.Options{CPUsPerWorker: 2, JobTimeout: 300 * time.Second, ExtraEnv: schedlib.RaceEnv()})
		st := schedx.Explore(cfg, rep, rp, progs, 0, 0, map[string]int{})
		races := schedlib.CollectRaces()
		path := schedlib.WriteRaceFile(cfg.Out, "C09", n, int(st.Executions), races)
		fmt.Printf("C09 race pass: %d programs x 25 free-running repetitions under -race, %d distinct data race(s) -> %s\n", n, len(races), path)
		for _, r := range races {
			fmt.Printf("  RACE (diagnostic) x%d: %s\n", r.Count, r.Key)
		}
		return
	}
	mk := func(starts, writers []string, sets [][]string, getEvery int) []any {
		var out []any
		for _, start := range starts {
			for _, w := range writers {
				for _, ss := range sets {
					if w == "none" && ss[len(ss)-1] == "text" {
						continue
					}
					out = append(out, Program{Searchers: ss, Writer: w, Start: start, GetEvery: getEvery})
				}
			}
		}
		return out
	}
	sets := [][]string{{"vamana-small", "vamana"}, {"vamana", "vamana-filter"}, {"vamana-filter", "text"}}
	allW := []string{"none", "ins2", "updvec", "del1", "del-ins", "ins2-storage-fault"}
	programs := mk([]string{"cold", "partial", "warm"}, allW, sets, 8)
	core := mk([]string{"cold", "warm"}, []string{"none", "del-ins"}, sets[:2], 8)
	core = append(core, mk([]string{"warm"}, []string{"ins2-storage-fault"}, sets[1:2], 8)...)
	// a finite cache size (as deployments have): nothing is evicted at 16 MiB, but every finished
	// cache access runs the prune pass, which measures the shared indexes while other requests use them
	for _, pr := range mk([]string{"warm"}, []string{"del-ins", "updvec"}, sets[:1], 8) {
		q := pr.(Program)
		q.CacheLimit = 16 << 20
		core = append(core, q)
	}
	// two cached indexes in one shard (graph + flat): a search on one finishes - and with a limit
	// runs the prune pass over both - while the write is inside the other
	for _, w := range []string{"updvec", "del-ins"} {
		for _, limit := range []int64{0, 16 << 20} {
			if limit == 0 && cfg.Quick() {
				continue // the quick tier runs the variant with a size limit only (its accesses also run the prune pass)
			}
			q := Program{Searchers: []string{"flat", "vamana"}, Writer: w, Start: "warm", GetEvery: 8, TwoCaches: true, CacheLimit: limit}
			programs = append(programs, q) // bound 0 in the quick tier, bound 1 in the thorough tier (~24 k executions each)
		}
	}
	// two writers on one shard (the shard manager hands a shard to any number of requests; the storage
	// engine serialises their write transactions): batches that share an id
	var twoW []any
	for _, start := range []string{"cold", "warm"} {
		for _, w2 := range []string{"ins57-other", "upd57", "del57", "ins2"} {
			twoW = append(twoW, Program{Writer: "ins2", Writer2: w2, Start: start, GetEvery: 8})
		}
	}
	coreAll := mk([]string{"cold", "warm"}, []string{"none", "updvec", "del-ins"}, sets, 8)
	type phase struct {
		name     string
		programs []any
		bound    int
	}
	phases := []phase{{"all programs, bound 0", programs, 0}, {"two writers whose batches share an id, bound 1", twoW, 1}, {"core programs (cold/warm x none/delete+insert x two graph-search pairs), bound 1", core, 1}}
	if !cfg.Quick() {
		var three []any
		for _, start := range []string{"cold", "warm"} {
			for _, w := range []string{"ins2", "del-ins"} {
				three = append(three, Program{Searchers: []string{"vamana", "vamana-filter", "vamana"}, Writer: w, Start: start, GetEvery: 1})
			}
		}
		phases = []phase{{"all programs, bound 0", programs, 0}, {"two writers whose batches share an id, bound 2", twoW, 2}, {"all programs, bound 1", programs, 1}, {"three searchers, every Get a point, bound 1", three, 1}, {"core programs, bound 2", coreAll, 2}}
	}
	if pj := cfg.Extra["program"]; pj != "" {
		var one Program
		if err := json.Unmarshal([]byte(pj), &one); err != nil {
			panic(err)
		}
		phases = []phase{{"one program, bound 0", []any{one}, 0}, {"one program, bound 1", []any{one}, 1}}
	}
	sigSeen := map[string]int{}
	var st schedx.Stats
	phaseInfo := map[string]any{}
	bound := 0
	for _, ph := range phases {
		before := rep.Exhaustive
		s1 := schedx.Explore(cfg, rep, p, ph.programs, ph.bound, 0, sigSeen)
		phaseInfo[ph.name] = map[string]any{"programs": s1.Programs, "executions": s1.Executions, "steps": s1.Steps, "completed": rep.Exhaustive || !before}
		st.Programs += s1.Programs
		st.Executions += s1.Executions
		st.Diverged += s1.Diverged
		st.Retries += s1.Retries
		st.Horizon += s1.Horizon
		if ph.bound > bound && rep.Exhaustive {
			bound = ph.bound
		}
	}
	rep.Set("phases", phaseInfo)
	rep.Set("races", schedlib.LoadRaceSummary(cfg.Out, "C09"))
	rep.States = int64(rep.OutcomeCount())
	rep.Set("executions", st.Executions)
	rep.Set("preemption_bound_completed", bound)
	rep.Set("replay_divergences", st.Diverged)
	rep.Set("replay_retries", st.Retries)
	rep.Set("horizon_hits", st.Horizon)
	if st.Diverged > 0 {
		rep.NotExhaustive(fmt.Sprintf("%d executions diverged while replaying their prefix (nondeterminism; never a verdict)", st.Diverged))
	}
	if len(sigSeen) > 0 {
		rep.Set("violation_counts", sigSeen)
	}
}

func main() {
	schedlib.MaxPerJob = 40
	harness.Main("C09", schedlib.Handler(run), master, "model_checking")
}
