// C13 — routing is a deterministic, order-independent, minimally disruptive
// function.  Exhaustive enumeration of stated finite families of server sets,
// orderings and keys against the real cluster.RendezvousHash.
package main

import (
	"encoding/json"
	"fmt"
	"math/bits"
	"sort"
	"strings"

	"github.com/semafind/semadb/cluster"
	"semaverif/engine/harness"
	"semaverif/engine/pool"
)

var serverPool = []string{
	"semadb-0.semadb:11001", "semadb-1.semadb:11001", "semadb-2.semadb:11001", "semadb-10.semadb:11001",
	"localhost:11001", "localhost:11002", "localhost:1100", "a:1",
	"a:11", "node:9", "node1:9898", "1node:9898",
	"10.0.0.1:11001", "10.0.0.11:11001", "x", "semadb-0.semadb:1100",
}

// longPool: names longer than any fixed-size buffer a routing shortcut might
// use, differing only in their last characters or only early on.
var longPool = []string{
	"semadb-shard-node.internal.example.com:11001", "semadb-shard-node.internal.example.com:11002",
	"semadb-shard-node.internal.example.com:11003", "semadb-shard-node.internal.example.com:11004",
	"semadb-0.semadb-headless.production.svc.cluster.local:11001", "semadb-1.semadb-headless.production.svc.cluster.local:11001",
	strings.Repeat("n", 64) + "1:9898", strings.Repeat("n", 64) + "2:9898",
}

type lcg struct{ s uint64 }

func (l *lcg) next() uint64 {
	l.s = l.s*6364136223846793005 + 1442695040888963407
	x := l.s
	x ^= x >> 33
	x *= 0xff51afd7ed558ccd
	x ^= x >> 33
	return x
}

func makeKeys(n int) []string {
	keys := []string{}
	seen := map[string]bool{}
	add := func(k string) {
		if !seen[k] && len(keys) < n {
			seen[k] = true
			keys = append(keys, k)
		}
	}
	// short user ids, including prefixes of one another and ids that collide
	// with server-name prefixes under plain concatenation
	alpha := "ab1:"
	for l := 1; l <= 4; l++ {
		idx := make([]int, l)
		for {
			var sb strings.Builder
			for _, i := range idx {
				sb.WriteByte(alpha[i])
			}
			add(sb.String())
			p := l - 1
			for p >= 0 {
				idx[p]++
				if idx[p] < len(alpha) {
					break
				}
				idx[p] = 0
				p--
			}
			if p < 0 {
				break
			}
		}
	}
	for _, u := range []string{"alice", "alice1", "alice10", "bob", "semadb-0", "semadb-0.semadb", "localhost", "user/with", ".", "..", "üser", "abcdefghijkl"} {
		add(u)
	}
	// long user ids sharing long prefixes (lengths around powers of two)
	for _, l := range []int{31, 32, 33, 63, 64, 65, 100, 128, 129, 256, 1000} {
		for _, c := range []string{"a", "b"} {
			add(strings.Repeat("u", l-1) + c)
		}
	}
	g := &lcg{s: 42}
	for len(keys) < n {
		a, b := g.next(), g.next()
		// uuid-shaped shard ids
		add(fmt.Sprintf("%08x-%04x-4%03x-%04x-%012x", uint32(a), uint16(a>>32), uint16(a>>48)&0xfff, uint16(b)&0x3fff|0x8000, b>>16))
	}
	return keys
}

type job struct {
	Kind  string `json:"kind"` // perm | bigperm | disrupt
	Mask  uint32 `json:"mask"`
	NKeys int    `json:"nkeys"`
	Rot   int    `json:"rot"`
	Pool  int    `json:"pool"` // 0 = serverPool, 1 = longPool
}

type viol struct {
	Sig    string `json:"sig"`
	Detail string `json:"detail"`
	Replay job    `json:"replay"`
}

type result struct {
	Evals    int64    `json:"evals"`
	Nontriv  int64    `json:"nontriv"`
	Outcomes []string `json:"outcomes"`
	Viols    []viol   `json:"viols"`
	Sample   any      `json:"sample"`
}

func poolOf(p int) []string {
	if p == 1 {
		return longPool
	}
	return serverPool
}

func subset(p int, mask uint32) []string {
	var s []string
	for i, name := range poolOf(p) {
		if mask&(1<<uint(i)) != 0 {
			s = append(s, name)
		}
	}
	return s
}

func permutations(s []string, f func([]string) bool) {
	a := append([]string{}, s...)
	sort.Strings(a)
	n := len(a)
	c := make([]int, n)
	if !f(a) {
		return
	}
	for i := 0; i < n; {
		if c[i] < i {
			if i%2 == 0 {
				a[0], a[i] = a[i], a[0]
			} else {
				a[c[i]], a[i] = a[i], a[c[i]]
			}
			if !f(a) {
				return
			}
			c[i]++
			i = 0
		} else {
			c[i] = 0
			i++
		}
	}
}

func eq(a, b []string) bool {
	if len(a) != len(b) {
		return false
	}
	for i := range a {
		if a[i] != b[i] {
			return false
		}
	}
	return true
}

// checkRanking: ranking must consist of min(topK,n) distinct members of S.
func checkRanking(S []string, r []string, topK int) string {
	want := topK
	if want > len(S) {
		want = len(S)
	}
	if len(r) != want {
		return fmt.Sprintf("ranking has %d entries, want %d", len(r), want)
	}
	in := map[string]bool{}
	for _, s := range S {
		in[s] = true
	}
	seen := map[string]bool{}
	for _, x := range r {
		if !in[x] {
			return fmt.Sprintf("ranking contains %q which is not a server of the set", x)
		}
		if seen[x] {
			return fmt.Sprintf("ranking contains %q twice", x)
		}
		seen[x] = true
	}
	return ""
}

func worker(raw json.RawMessage) (json.RawMessage, error) {
	var j job
	if err := json.Unmarshal(raw, &j); err != nil {
		return nil, err
	}
	keys := makeKeys(j.NKeys)
	res := result{}
	addV := func(sig, detail string) {
		if len(res.Viols) < 5 {
			res.Viols = append(res.Viols, viol{sig, detail, j})
		}
	}
	switch j.Kind {
	case "dup":
		// a list that names one server twice is the same *set*: the owner is the
		// owner over the set, on the first call and on every later call with the
		// same (long-lived) list, and the owner is always a member of the set
		S := subset(j.Pool, j.Mask)
		set := append([]string{}, S...)
		sort.Strings(set)
		member := map[string]bool{}
		for _, x := range set {
			member[x] = true
		}
		ref := make([]string, len(keys))
		for i, k := range keys {
			ref[i] = cluster.RendezvousHash(k, set, 1)[0]
		}
		for d := range S {
			for _, where := range []string{"front", "back", "adjacent"} {
				var list []string
				switch where {
				case "front":
					list = append(append([]string{S[d]}, S...))
				case "back":
					list = append(append([]string{}, S...), S[d])
				default:
					list = append(append(append([]string{}, S[:d+1]...), S[d]), S[d+1:]...)
				}
				given := append([]string{}, list...)
				// the same slice is used for every key, as a node uses its configured list
				for round := 1; round <= 2; round++ {
					for i, k := range keys {
						r := cluster.RendezvousHash(k, list, 1)
						res.Evals++
						if len(r) != 1 || !member[r[0]] {
							addV("owner-not-in-server-set", fmt.Sprintf("key %q (round %d over the same list): owner %q is not a member of %v (list as configured %v, list now %v)", k, round, r, set, given, list))
							return json.Marshal(res)
						}
						if r[0] != ref[i] {
							addV("duplicate-entry-changes-owner", fmt.Sprintf("key %q (round %d over the same list): list %v gives owner %q, the set %v gives %q", k, round, given, r[0], set, ref[i]))
							return json.Marshal(res)
						}
					}
				}
				res.Nontriv++
			}
		}
		res.Outcomes = append(res.Outcomes, fmt.Sprint("dup", set))
		res.Sample = map[string]any{"kind": "dup", "servers": set, "keys": len(keys)}
	case "perm", "bigperm":
		S := subset(j.Pool, j.Mask)
		n := len(S)
		sorted := append([]string{}, S...)
		sort.Strings(sorted)
		// reference answers from the sorted ordering
		ref1 := make([]string, len(keys))
		refN := make([][]string, len(keys))
		owned := map[string]int{}
		for i, k := range keys {
			refN[i] = cluster.RendezvousHash(k, sorted, n)
			r1 := cluster.RendezvousHash(k, sorted, 1)
			if msg := checkRanking(sorted, refN[i], n); msg != "" {
				addV("ranking-malformed", fmt.Sprintf("key %q servers %v topK %d: %s", k, sorted, n, msg))
				return json.Marshal(res)
			}
			if len(r1) != 1 || r1[0] != refN[i][0] {
				addV("owner-depends-on-topK", fmt.Sprintf("key %q servers %v: topK=1 gives %v, topK=%d gives %v", k, sorted, r1, n, refN[i]))
				return json.Marshal(res)
			}
			// topK beyond the set is clamped, 0 gives nothing
			if r := cluster.RendezvousHash(k, sorted, n+3); !eq(r, refN[i]) {
				addV("topK-clamp", fmt.Sprintf("key %q servers %v: topK=%d gives %v, want %v", k, sorted, n+3, r, refN[i]))
			}
			ref1[i] = r1[0]
			owned[r1[0]]++
			res.Evals += 3
		}
		if len(keys) >= 4096 {
			for _, s := range sorted {
				if owned[s] == 0 {
					addV("server-owns-nothing", fmt.Sprintf("server %q of %v owns none of %d keys", s, sorted, len(keys)))
				}
			}
		}
		res.Outcomes = append(res.Outcomes, fmt.Sprint(sorted, owned))
		visit := func(p []string) bool {
			same := eq(p, sorted)
			for i, k := range keys {
				r := cluster.RendezvousHash(k, p, 1)
				res.Evals++
				if len(r) != 1 || r[0] != ref1[i] {
					addV("order-dependent-owner", fmt.Sprintf("key %q: ordering %v gives owner %v, sorted ordering gives %q", k, p, r, ref1[i]))
					return false
				}
				rn := cluster.RendezvousHash(k, p, n)
				res.Evals++
				if !eq(rn, refN[i]) {
					addV("order-dependent-ranking", fmt.Sprintf("key %q: ordering %v gives %v, sorted ordering gives %v", k, p, rn, refN[i]))
					return false
				}
			}
			if !same {
				res.Nontriv++
			}
			return true
		}
		if j.Kind == "perm" {
			permutations(S, visit)
		} else {
			// bounded family for big sets: sorted, reversed, all rotations, and
			// every adjacent transposition of each of those
			base := [][]string{sorted}
			rev := append([]string{}, sorted...)
			for i, k := 0, len(rev)-1; i < k; i, k = i+1, k-1 {
				rev[i], rev[k] = rev[k], rev[i]
			}
			base = append(base, rev)
			for r := 1; r < n; r++ {
				rot := append(append([]string{}, sorted[r:]...), sorted[:r]...)
				base = append(base, rot)
			}
			for _, b := range base {
				if !visit(b) {
					break
				}
				for t := 0; t+1 < n; t++ {
					p := append([]string{}, b...)
					p[t], p[t+1] = p[t+1], p[t]
					if !visit(p) {
						break
					}
				}
			}
		}
		res.Sample = map[string]any{"kind": j.Kind, "servers": sorted, "keys": len(keys), "first_key": keys[0], "owner_of_first_key": ref1[0]}
	case "disrupt":
		// S = subset(mask); for every x not in S: adding x moves a key only to x;
		// (removal of x from S∪{x} is the same statement read backwards)
		S := subset(j.Pool, j.Mask)
		sort.Strings(S)
		ownerS := make([]string, len(keys))
		for i, k := range keys {
			ownerS[i] = cluster.RendezvousHash(k, S, 1)[0]
		}
		for xi := 0; xi < len(poolOf(j.Pool)); xi++ {
			if j.Mask&(1<<uint(xi)) != 0 {
				continue
			}
			x := poolOf(j.Pool)[xi]
			// put x at every position: result must not depend on where it is
			for pos := 0; pos <= len(S); pos += max(1, len(S)) {
				T := append(append(append([]string{}, S[:pos]...), x), S[pos:]...)
				moved := 0
				for i, k := range keys {
					o := cluster.RendezvousHash(k, T, 1)[0]
					res.Evals++
					if o != ownerS[i] {
						if o != x {
							addV("non-minimal-disruption", fmt.Sprintf("key %q: owner in %v is %q; after adding %q it is %q (a key may only move to the added server / away from the removed one)", k, S, ownerS[i], x, o))
							return json.Marshal(res)
						}
						moved++
					}
				}
				if moved > 0 {
					res.Nontriv++
				}
				if len(keys) >= 4096 && moved == 0 {
					addV("added-server-owns-nothing", fmt.Sprintf("adding %q to %v moved none of %d keys", x, S, len(keys)))
				}
				res.Outcomes = append(res.Outcomes, fmt.Sprint(j.Mask, xi, moved))
			}
		}
		res.Sample = map[string]any{"kind": "disrupt", "servers": S, "keys": len(keys)}
	}
	return json.Marshal(res)
}

func master(cfg *harness.Config, rep *harness.Report) {
	rep.Rule = "two name pools (16 short names as in the shipped configs; 8 long names of 44..70 characters that differ only in their last character or only early on). perm: every non-empty subset of the first 7 pool names x all |S|! orderings x all keys x topK in {1,|S|} must give the answer of the sorted ordering; bigperm: prefixes of the 16-name pool of size 8..16 x {sorted, reversed, rotations, adjacent transpositions}; dup: every set of <= 4 of the first 8 names with each member listed twice (front, back, adjacent), the same list used for two rounds over all keys: owner = owner over the set, always a member. disrupt: server sets (prefix chains of 16 rotations of the pool, all sets of size <=4 of the first 8 names) x every server not in the set added at front and back x all keys: owner changes only to the added server. non-trivial = orderings different from the sorted one / additions that moved at least one key"
	rep.Assumptions = []string{"keys: all strings of length 1..4 over {a,b,1,:}, hand-picked user ids, long user ids (31..1000 characters, pairs differing in the last character), deterministic uuid stream; not all strings", "xxhash itself is trusted only through the behaviour observed here"}
	var jobs []json.RawMessage
	add := func(j job) {
		b, _ := json.Marshal(j)
		jobs = append(jobs, b)
	}
	if cfg.Replay != "" {
		var j job
		if err := harness.LoadReplay(cfg.Replay, &j); err != nil {
			panic(err)
		}
		add(j)
	} else {
		nk := 4096
		permKeys := 512
		if !cfg.Quick() {
			permKeys = 4096
		}
		for m := uint32(1); m < 1<<7; m++ {
			k := permKeys
			if bits.OnesCount32(m) <= 5 {
				k = nk
			}
			add(job{Kind: "perm", Mask: m, NKeys: k})
		}
		for n := 8; n <= 16; n++ {
			add(job{Kind: "bigperm", Mask: (1 << uint(n)) - 1, NKeys: nk})
		}
		seen := map[uint32]bool{}
		for rot := 0; rot < 16; rot++ {
			var m uint32
			for l := 0; l < 15; l++ {
				m |= 1 << uint((rot+l)%16)
				if !seen[m] {
					seen[m] = true
					add(job{Kind: "disrupt", Mask: m, NKeys: nk})
				}
			}
		}
		for m := uint32(1); m < 1<<8; m++ {
			if bits.OnesCount32(m) <= 4 && !seen[m] {
				seen[m] = true
				add(job{Kind: "disrupt", Mask: m, NKeys: nk})
			}
		}
		// lists that name a server twice (sets of <= 4 of the first 8 names, every member duplicated at the front / back / next to itself), each list used twice for all keys
		for m := uint32(1); m < 1<<8; m++ {
			if bits.OnesCount32(m) <= 4 {
				add(job{Kind: "dup", Mask: m, NKeys: permKeys})
			}
		}
		// the long-name pool: all subsets, all orderings (<= 6 names; sorted/reversed/rotations/transpositions above), single additions for sets of <= 4
		for m := uint32(1); m < 1<<8; m++ {
			switch c := bits.OnesCount32(m); {
			case c <= 5:
				add(job{Kind: "perm", Mask: m, NKeys: nk, Pool: 1})
			case c == 6:
				add(job{Kind: "perm", Mask: m, NKeys: permKeys, Pool: 1})
			default:
				add(job{Kind: "bigperm", Mask: m, NKeys: nk, Pool: 1})
			}
			if bits.OnesCount32(m) <= 4 {
				add(job{Kind: "disrupt", Mask: m, NKeys: nk, Pool: 1})
			}
		}
	}
	p := pool.New(pool.Options{CPUsPerWorker: 1})
	results, err := p.RunAll(jobs)
	if err != nil {
		panic(err)
	}
	for _, r := range results {
		if r.Crashed || r.Hung || r.Err != "" {
			var j job
			json.Unmarshal(r.Job, &j)
			rep.Violate(harness.Violation{Sig: "routing-call-crashed", Detail: fmt.Sprintf("crashed=%v hung=%v err=%s stderr=%s", r.Crashed, r.Hung, r.Err, tail(r.Stderr)), Replay: j})
			continue
		}
		var res result
		json.Unmarshal(r.Out, &res)
		rep.Evaluations += res.Evals
		rep.DistinctNontrivial += res.Nontriv
		for _, o := range res.Outcomes {
			rep.Outcome(o)
		}
		for _, v := range res.Viols {
			rep.Violate(harness.Violation{Sig: v.Sig, Detail: v.Detail, Replay: v.Replay})
		}
		if res.Sample != nil && r.Index%40 == 0 {
			rep.Sample(res.Sample)
		}
	}
	rep.Set("jobs", len(jobs))
}

func tail(s string) string {
	if len(s) > 1500 {
		return s[len(s)-1500:]
	}
	return s
}

func main() {
	harness.Main("C13", worker, master, "model_checking")
}
