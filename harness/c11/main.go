// C11 — shared-cache transactions isolate writers, drop failed state, release
// locks.  Stateless preemption-bounded search over all interleavings of short
// transaction programs on the REAL cache manager (manager.go with its sync /
// atomic imports redirected to the scheduler shims), with a harness-side
// stand-in for bbolt (per-shard committed version + single-writer token).
package main

import (
	"encoding/json"
	"errors"
	"fmt"
	"sort"
	"strings"
	"time"

	"github.com/semafind/semadb/shard/cache"
	"github.com/semafind/semadb/zzverif/vsched"

	"semaverif/engine/harness"
	"semaverif/engine/pool"
	"semaverif/engine/schedx"
	"semaverif/harness/schedlib"
)

// Access is one With call of a transaction program.
type Access struct {
	Name       string `json:"name"` // A1, A2 (shard A), B1 (shard B)
	RO         bool   `json:"ro"`
	FFails     bool   `json:"ffails,omitempty"`
	CreateFail bool   `json:"cfails,omitempty"`
}

// Tx is one transaction program.
type Tx struct {
	Acc        []Access `json:"acc"`
	CommitFail bool     `json:"commitFail,omitempty"` // the storage transaction fails after the accesses succeeded
	// ForgetFail: the caller ends the cache transaction with Commit(false) although one of its
	// accesses failed (the manager keeps its own failed flag and must discard what was written)
	ForgetFail bool `json:"forgetFail,omitempty"`
}

// Program is one exploration unit.
type Program struct {
	Txs     []Tx     `json:"txs"`
	Evict   []string `json:"evict,omitempty"` // names an extra thread Releases, one after the other
	MaxSize int64    `json:"maxSize"`
	Warm    []string `json:"warm,omitempty"` // caches present (committed) before the threads start
	// ManagerOnly: no storage stand-in ordering the writers (the manager on its own, as the
	// property quantifies): two writing transactions of one shard may overlap, and the
	// monitors that compare cache versions with committed storage are off
	ManagerOnly bool `json:"managerOnly,omitempty"`
}

func (t Tx) String() string {
	var p []string
	for _, a := range t.Acc {
		m := "rw"
		if a.RO {
			m = "ro"
		}
		s := a.Name + ":" + m
		if a.FFails {
			s += ":f-fails"
		}
		if a.CreateFail {
			s += ":create-fails"
		}
		p = append(p, s)
	}
	c := "commit"
	if t.CommitFail {
		c = "abort"
	}
	if t.ForgetFail {
		c = "commit(false)-after-failed-access"
	}
	return strings.Join(p, ",") + ";" + c
}

func shardOf(name string) string { return name[:1] }

// obj is a cached index as the harness sees it.
type obj struct {
	id            int
	name          string
	ver           int // committed version it reflects (+1 while an uncommitted write sits in it)
	uncommittedBy int // tx that wrote it and has not committed the storage yet
	owner         int // tx that holds it for writing (from its first rw callback until it calls Commit)
	dead          bool
	deadWriter    bool        // made dead by a transaction that held it exclusively
	readersIn     map[int]int // transactions currently inside a read-only callback on this object
	byReader      bool        // built by a read-only transaction from its snapshot
	racy          bool        // ... while a newer commit existed or a writer of the shard was in flight
}

func (o *obj) SizeInMemory() int64 { return 8 }

type world struct {
	managerOnly bool
	committed   map[string]int
	token       map[string]int // shard -> tx holding the single bbolt writer slot
	commitNow   map[int]bool   // tx has called Commit
	objSeq      int
	viols       []schedlib.V
	log         []string
	created     map[string]int // createFn calls per name
}

func (w *world) fail(sig, format string, a ...any) {
	if len(w.viols) < 8 {
		w.viols = append(w.viols, schedlib.V{Sig: sig, Detail: fmt.Sprintf(format, a...)})
	}
}

var errInjected = errors.New("injected failure")

// staleClass names how a stale shared cache came to be: the known mechanism is
// a read-only transaction installing a cache built from its snapshot while a
// writer of that shard was in flight (its own entry evicted) or after a newer
// commit.
func staleClass(o *obj) string {
	if o.byReader && o.racy {
		return ":installed-by-reader-from-old-snapshot"
	}
	return ":other"
}

func runTx(w *world, mgr *cache.Manager, id int, tx Tx) {
	writes := false
	for _, a := range tx.Acc {
		if !a.RO {
			writes = true
		}
	}
	shard := shardOf(tx.Acc[0].Name)
	if writes && w.managerOnly {
		vsched.Point("begin-write-tx(no storage) " + shard)
	} else if writes {
		// bbolt admits one write transaction per file
		vsched.PointIf(fmt.Sprintf("begin-write-tx %s", shard), func() bool { return w.token[shard] == 0 })
		w.token[shard] = id
	} else {
		vsched.Point("begin-read-tx " + shard)
	}
	// a read transaction sees the versions committed when it began
	snap := map[string]int{}
	for k, v := range w.committed {
		snap[k] = v
	}
	ctx := mgr.NewTransaction()
	failed := false
	var written []*obj
	for _, a := range tx.Acc {
		a := a
		fresh := false
		err := ctx.With(a.Name, a.RO, func() (cache.Cachable, error) {
			vsched.Point("createFn " + a.Name)
			w.created[a.Name]++
			if a.CreateFail {
				return nil, errInjected
			}
			w.objSeq++
			fresh = true
			// a cold cache is built from what this transaction can see
			v := w.committed[a.Name]
			if !writes {
				v = snap[a.Name]
			}
			return &obj{id: w.objSeq, name: a.Name, ver: v, byReader: !writes, racy: !writes && (snap[a.Name] < w.committed[a.Name] || w.token[shard] != 0)}, nil
		}, func(c cache.Cachable) error {
			o := c.(*obj)
			vsched.Point(fmt.Sprintf("callback-enter %s obj%d", a.Name, o.id))
			// ---- monitors ----
			if o.owner != 0 && o.owner != id && !w.commitNow[o.owner] {
				w.fail("isolation-broken", "tx%d (%s) runs a callback on cache %s obj%d while tx%d, which wrote it, has not committed yet", id, tx, a.Name, o.id, o.owner)
			}
			if o.uncommittedBy != 0 && o.uncommittedBy != id {
				w.fail("uncommitted-state-observed", "tx%d (%s) is handed cache %s obj%d carrying uncommitted writes of tx%d", id, tx, a.Name, o.id, o.uncommittedBy)
			}
			if !a.RO {
				for other, n := range o.readersIn {
					if other != id && n > 0 {
						w.fail("isolation-broken", "tx%d (%s) starts writing cache %s obj%d while tx%d is still inside a read-only callback on the same object", id, tx, a.Name, o.id, other)
					}
				}
			} else {
				if o.readersIn == nil {
					o.readersIn = map[int]int{}
				}
				o.readersIn[id]++
				defer func() { o.readersIn[id]-- }()
			}
			if o.dead && o.deadWriter {
				w.fail("scrapped-cache-handed-out", "tx%d (%s) is handed cache %s obj%d which a failed transaction had written", id, tx, a.Name, o.id)
			}
			if !fresh && o.uncommittedBy != id && !o.dead && !w.managerOnly {
				// a shared cache must reflect committed storage; a reader may lag
				// (its own snapshot) but never lead, a writer must see the latest
				cur := w.committed[a.Name]
				if (writes && o.ver != cur) || (!writes && o.ver < snap[a.Name]) {
					w.fail("stale-shared-cache"+staleClass(o), "tx%d (%s) is handed shared cache %s obj%d built at version %d, committed is %d (its snapshot %d)", id, tx, a.Name, o.id, o.ver, cur, snap[a.Name])
				}
			}
			if !a.RO {
				if o.owner == 0 {
					o.owner = id
				}
				o.uncommittedBy = id
				o.ver = w.committed[a.Name] + 1
				written = append(written, o)
			}
			vsched.Point(fmt.Sprintf("callback-exit %s obj%d", a.Name, o.id))
			if a.FFails {
				o.dead = true
				o.deadWriter = !a.RO
				return errInjected
			}
			return nil
		})
		if err != nil {
			failed = true
			break // the shard aborts the operation on the first error
		}
	}
	if tx.CommitFail {
		failed = true
	}
	if writes {
		// the storage transaction ends first (commit or rollback), then the cache transaction
		vsched.Point("storage-tx-end " + shard)
		if !failed {
			bumped := map[string]bool{}
			for _, o := range written {
				o.uncommittedBy = 0
				if !bumped[o.name] {
					bumped[o.name] = true
					w.committed[o.name]++
				}
			}
		} else {
			for _, o := range written {
				o.dead = true
				o.deadWriter = true
			}
		}
		w.token[shard] = 0
	}
	w.commitNow[id] = true
	ctx.Commit(failed && !(tx.ForgetFail && !tx.CommitFail))
	vsched.Point(fmt.Sprintf("tx%d-done", id))
}

func names(p Program) []string {
	set := map[string]bool{}
	for _, t := range p.Txs {
		for _, a := range t.Acc {
			set[a.Name] = true
		}
	}
	for _, n := range append(append([]string{}, p.Evict...), p.Warm...) {
		set[n] = true
	}
	var out []string
	for n := range set {
		out = append(out, n)
	}
	sort.Strings(out)
	return out
}

func run(raw json.RawMessage, prefix []string) (*vsched.Trace, []schedlib.V, string) {
	var p Program
	if err := json.Unmarshal(raw, &p); err != nil {
		panic(err)
	}
	w := &world{managerOnly: p.ManagerOnly, committed: map[string]int{"A1": 1, "A2": 1, "B1": 1}, token: map[string]int{}, commitNow: map[int]bool{}, created: map[string]int{}}
	mgr := cache.NewManager(p.MaxSize)
	// warm start: a committed cache is in the manager
	for _, n := range p.Warm {
		n := n
		tx := mgr.NewTransaction()
		tx.With(n, true, func() (cache.Cachable, error) {
			w.objSeq++
			return &obj{id: w.objSeq, name: n, ver: w.committed[n]}, nil
		}, func(cache.Cachable) error { return nil })
		tx.Commit(false)
	}
	done := 0
	total := len(p.Txs)
	if len(p.Evict) > 0 {
		total++
	}
	tr := vsched.Run(vsched.Options{Fast: true, MaxSteps: 400}, prefix, func(s *vsched.Sched) {
		for i, tx := range p.Txs {
			i, tx := i, tx
			s.Go(fmt.Sprintf("T%d", i+1), func() {
				runTx(w, mgr, i+1, tx)
				done++
			})
		}
		if len(p.Evict) > 0 {
			s.Go("E", func() {
				for _, n := range p.Evict {
					vsched.Point("evict " + n)
					mgr.Release(n)
				}
				done++
			})
		}
		// progress probe: once everybody finished, every cache must still be
		// writable and committable (all locks released)
		s.Go("P", func() {
			vsched.PointIf("probe-start", func() bool { return done == total })
			for _, n := range names(p) {
				n := n
				created := false
				tx := mgr.NewTransaction()
				before := w.created[n]
				err := tx.With(n, false, func() (cache.Cachable, error) {
					created = true
					w.objSeq++
					return &obj{id: w.objSeq, name: n, ver: w.committed[n]}, nil
				}, func(c cache.Cachable) error {
					o := c.(*obj)
					if o.dead {
						w.fail("failed-cache-not-discarded", "after all transactions finished cache %s still hands out obj%d that a failed access had marked unusable", n, o.id)
					}
					if o.uncommittedBy != 0 {
						w.fail("uncommitted-state-observed", "probe is handed cache %s obj%d with uncommitted writes of tx%d", n, o.id, o.uncommittedBy)
					}
					if !created && o.ver != w.committed[n] && !w.managerOnly {
						w.fail("stale-shared-cache"+staleClass(o), "after all transactions finished the shared cache %s obj%d reflects version %d, committed is %d", n, o.id, o.ver, w.committed[n])
					}
					return nil
				})
				_ = before
				if err != nil {
					w.fail("probe-failed", "probe transaction on %s: %v", n, err)
				}
				tx.Commit(false)
			}
		})
	})
	outcome := fmt.Sprint(w.committed, w.created, len(w.viols))
	return tr, w.viols, outcome
}

// ---- program sets ----

// Transaction shapes follow the usage protocol of the shard: a write batch
// accesses each of its index caches once, for writing; a search accesses
// caches read-only (possibly the same one twice).
func txShapes() []Tx {
	return []Tx{
		{Acc: []Access{{Name: "A1", RO: true}}},
		{Acc: []Access{{Name: "A1"}}},
		{Acc: []Access{{Name: "A2"}}},
		{Acc: []Access{{Name: "B1"}}},
		{Acc: []Access{{Name: "A1", FFails: true}}},
		{Acc: []Access{{Name: "A1", RO: true, FFails: true}}},
		{Acc: []Access{{Name: "A1", CreateFail: true}}},
		{Acc: []Access{{Name: "A1"}}, CommitFail: true},
		{Acc: []Access{{Name: "A1"}, {Name: "A2"}}},
		{Acc: []Access{{Name: "A1", RO: true}, {Name: "A1", RO: true}}},
		{Acc: []Access{{Name: "A2"}, {Name: "A1", FFails: true}}},
		{Acc: []Access{{Name: "A2", RO: true}, {Name: "A1", RO: true}}},
		// not a shape the shard produces (a write batch accesses each cache once), but
		// inside the property's quantifier: the same cache written twice by one transaction
		{Acc: []Access{{Name: "A1"}, {Name: "A1"}}},
		// two caches, the second access fails, and the caller closes with Commit(false): the
		// manager's own failed flag must still discard the first cache
		{Acc: []Access{{Name: "A2"}, {Name: "A1", FFails: true}}, ForgetFail: true},
	}
}

func master(cfg *harness.Config, rep *harness.Report) {
	rep.Rule = "programs: all unordered pairs (quick) / pairs and selected triples (thorough) of 14 transaction shapes (read-only / writing accesses to caches A1, A2 of shard A and B1 of shard B, failing callback, failing constructor, storage abort, two-access transactions incl. the same cache written twice and a failure in the second cache closed with Commit(false)) x evictor thread {none, Release(A1)} x manager size {-1, 0, 1 (< one object), 10 (one object fits, two do not)} x initial map {empty, A1 present}; for each program every interleaving of the threads at the scheduling points (every Lock/RLock/TryRLock/Unlock and atomic.Bool op of the real manager.go via shims, callback entry/exit, constructor, storage begin/end, eviction) with at most `bound` preemptions, iterated 0..bound; monitors: isolation (no callback on a cache another transaction has written and not committed; no write callback while another transaction's read-only callback is still inside the same object), no uncommitted state observed, scrapped caches never handed out, shared caches reflect committed storage, no deadlock, final probe can write and commit every cache. states = distinct observable outcomes; transitions = scheduler steps; traces = complete executions (all on the real code)"
	rep.Assumptions = []string{"the storage layer is a stand-in: per-shard committed counter and single-writer token taken before the first access and released before cacheTx.Commit, as Shard.InsertPoints orders it", "usage protocol: every With of a transaction returns before its Commit (the overlap is defect F4, covered under C07)", "memory model: sequentially consistent interleavings of the shimmed operations"}
	p := pool.New(pool.Options{CPUsPerWorker: 1, JobTimeout: 300 * time.Second})
	if cfg.Replay != "" {
		var r schedx.Replay
		if err := harness.LoadReplay(cfg.Replay, &r); err != nil {
			panic(err)
		}
		for i := 0; i < 5; i++ {
			tr, viols, _ := run(r.Program, r.Choices)
			fmt.Printf("replay %d: %d steps, diverged=%q, %d violation(s)\n", i+1, len(tr.Steps), tr.Diverged, len(viols))
			if i == 4 {
				for _, v := range viols {
					rep.Violate(harness.Violation{Sig: v.Sig, Detail: v.Detail, Replay: r})
				}
			}
		}
		return
	}
	shapes := txShapes()
	pairsOf := func(n int, sizes []int64, warms, evicts [][]string) []any {
		var out []any
		for _, size := range sizes {
			for _, warm := range warms {
				for _, ev := range evicts {
					for i := 0; i < n; i++ {
						for j := i; j < n; j++ {
							out = append(out, Program{Txs: []Tx{shapes[i], shapes[j]}, Evict: ev, MaxSize: size, Warm: warm})
						}
					}
				}
			}
		}
		return out
	}
	pairs := func(sizes []int64, warms, evicts [][]string) []any {
		return pairsOf(len(shapes), sizes, warms, evicts)
	}
	triples := func(sizes []int64, warms [][]string) []any {
		var out []any
		for _, size := range sizes {
			for _, warm := range warms {
				for i := 0; i < 8; i++ {
					for j := i; j < 8; j++ {
						for k := j; k < len(shapes); k++ {
							out = append(out, Program{Txs: []Tx{shapes[i], shapes[j], shapes[k]}, MaxSize: size, Warm: warm})
						}
					}
				}
			}
		}
		return out
	}
	allSizes := []int64{-1, 0, 1, 10}
	both := [][]string{nil, {"A1"}}
	type phase struct {
		name     string
		programs []any
		bound    int
	}
	var phases []phase
	if cfg.Quick() {
		phases = []phase{
			{"pairs, sizes -1/10, bound 1", pairs([]int64{-1, 10}, both, both), 1},
			{"pairs, sizes 0/1, no evictor, bound 1", pairs([]int64{0, 1}, both, [][]string{nil}), 1},
			{"single-access pairs (size 10, A1 warm), bound 2", pairsOf(8, []int64{10}, [][]string{{"A1"}}, both), 2},
		}
	} else {
		phases = []phase{
			{"all pairs, bound 2", pairs(allSizes, both, both), 2},
			{"triples, bound 1", triples([]int64{-1, 1, 10}, both), 1},
			{"core pairs (size -1/10, A1 warm), bound 3", pairs([]int64{-1, 10}, [][]string{{"A1"}}, both), 3},
			{"core triples (size 10, A1 warm), bound 2", triples([]int64{10}, [][]string{{"A1"}}), 2},
		}
	}
	if cfg.Extra["manageronly"] != "" {
		mo := func(ps []any) []any {
			var out []any
			for _, x := range ps {
				pr := x.(Program)
				pr.ManagerOnly = true
				out = append(out, pr)
			}
			return out
		}
		phases = []phase{
			{"manager only: pairs, sizes -1/1/10, bound 2", mo(pairs([]int64{-1, 1, 10}, both, both)), 2},
			{"manager only: triples, sizes 1/10, bound 1", mo(triples([]int64{1, 10}, both)), 1},
		}
	}
	if b := cfg.Extra["bound"]; b != "" {
		n := int(b[0] - '0')
		phases = []phase{{"all pairs, bound " + b, pairs(allSizes, both, both), n}}
	}
	sigSeen := map[string]int{}
	var st schedx.Stats
	phaseInfo := map[string]any{}
	bound := 0
	for _, ph := range phases {
		before := rep.Exhaustive
		s1 := schedx.Explore(cfg, rep, p, ph.programs, ph.bound, 0, sigSeen)
		phaseInfo[ph.name] = map[string]any{"programs": s1.Programs, "executions": s1.Executions, "steps": s1.Steps, "completed": rep.Exhaustive || !before}
		st.Programs += s1.Programs
		st.Executions += s1.Executions
		st.Steps += s1.Steps
		st.Diverged += s1.Diverged
		st.Retries += s1.Retries
		st.Horizon += s1.Horizon
		if ph.bound > bound {
			bound = ph.bound
		}
	}
	rep.Set("phases", phaseInfo)
	rep.States = int64(rep.OutcomeCount())
	rep.Set("programs", st.Programs)
	rep.Set("executions", st.Executions)
	rep.Set("preemption_bound_completed", bound)
	rep.Set("replay_divergences", st.Diverged)
	rep.Set("replay_retries", st.Retries)
	rep.Set("horizon_hits", st.Horizon)
	if st.Diverged > 0 {
		rep.NotExhaustive(fmt.Sprintf("%d executions diverged while replaying their prefix (nondeterminism; never a verdict)", st.Diverged))
	}
	if st.Horizon > 0 {
		rep.NotExhaustive(fmt.Sprintf("%d executions hit the step horizon", st.Horizon))
	}
	if len(sigSeen) > 0 {
		rep.Set("violation_counts", sigSeen)
	}
}

func main() {
	harness.Main("C11", schedlib.Handler(run), master, "model_checking")
}
