// C12 — shard loading, idle unloading and collection deletion are safe and
// deadlock-free.  Stateless preemption-bounded search over all interleavings
// of requests, collection deletion and the idle timer (a controller-owned
// virtual timer that may fire at any scheduling point) on the REAL
// ShardManager with real bbolt shard files; shardmgr.go's sync and time
// imports are redirected to the scheduler shims by the build overlay.
package main

import (
	"encoding/json"
	"fmt"
	"os"
	"path/filepath"
	"runtime"
	"strings"
	"time"

	"github.com/semafind/semadb/cluster"
	"github.com/semafind/semadb/models"
	"github.com/semafind/semadb/shard"
	"github.com/semafind/semadb/zzverif/vsched"
	"github.com/semafind/semadb/zzverif/vtime"

	"semaverif/engine/harness"
	"semaverif/engine/pool"
	"semaverif/engine/schedx"
	"semaverif/harness/schedlib"
)

// Thread is one harness thread: a request on a shard, or a collection deletion.
type Thread struct {
	Kind  string `json:"kind"` // req | del
	Shard string `json:"shard,omitempty"`
	Twice bool   `json:"twice,omitempty"` // a request thread issues two requests in a row
}

// Program is one exploration unit.
type Program struct {
	Threads []Thread `json:"threads"`
	Backups bool     `json:"backups"`
	Preload []string `json:"preload,omitempty"` // shards loaded (and idle) before the threads start
}

func scratch() string {
	if d := os.Getenv("VERIF_SCRATCH"); d != "" {
		return d
	}
	return "/dev/shm"
}

var execCount int

func openFds(path string) int {
	ents, err := os.ReadDir("/proc/self/fd")
	if err != nil {
		return -1
	}
	n := 0
	for _, e := range ents {
		if t, err := os.Readlink("/proc/self/fd/" + e.Name()); err == nil && t == path {
			n++
		}
	}
	return n
}

func run(raw json.RawMessage, prefix []string) (*vsched.Trace, []schedlib.V, string) {
	var p Program
	if err := json.Unmarshal(raw, &p); err != nil {
		panic(err)
	}
	root, err := os.MkdirTemp(scratch(), "c12")
	if err != nil {
		panic(err)
	}
	defer os.RemoveAll(root)
	baseline := runtime.NumGoroutine()
	var viols []schedlib.V
	fail := func(sig, format string, a ...any) {
		if len(viols) < 8 {
			viols = append(viols, schedlib.V{Sig: sig, Detail: fmt.Sprintf(format, a...)})
		}
	}
	plan := models.UserPlan{Name: "p", MaxPointSize: 1 << 20, MaxCollectionPointCount: 1000, MaxCollections: 5}
	if p.Backups {
		plan.ShardBackupFrequency, plan.ShardBackupCount = 1, 2
	}
	col := models.Collection{UserId: "alice", Id: "col", IndexSchema: models.IndexSchema{}, UserPlan: plan}
	sm := cluster.NewShardManager(cluster.ShardManagerConfig{RootDir: root, ShardTimeout: 3600, MaxCacheSize: -1})
	vtime.ResetNames()
	shardPath := func(id string) string {
		return filepath.Join(root, cluster.USERCOLSDIR, col.UserId, col.Id, id, "sharddb.bbolt")
	}
	var outcome []string
	request := func(name, shardId string) {
		ran := false
		err := sm.DoWithShard(col, shardId, func(s *shard.Shard) (rerr error) {
			ran = true
			defer func() {
				if r := recover(); r != nil {
					fail("request-panicked-on-shard", "%s on %s: panic inside the callback: %v", name, shardId, r)
				}
			}()
			vsched.Point("callback-enter " + shardId)
			if _, err := s.Info(); err != nil {
				fail("request-ran-on-closed-shard", "%s: the callback runs but the shard handle of %s is unusable: %v", name, shardId, err)
			}
			if n := openFds(shardPath(shardId)); n > 1 {
				fail("shard-file-open-twice", "%s: %d descriptors are open on %s while a request uses it", name, n, shardPath(shardId))
			}
			vsched.Point("callback-middle " + shardId)
			if _, err := os.Stat(shardPath(shardId)); err != nil {
				fail("shard-files-removed-under-request", "%s: the shard file of %s vanished while the request was using it: %v", name, shardId, err)
			}
			if _, err := s.Info(); err != nil {
				fail("request-ran-on-closed-shard", "%s: the shard handle of %s became unusable during the callback: %v", name, shardId, err)
			}
			vsched.Point("callback-exit " + shardId)
			return nil
		})
		switch {
		case err == nil && ran:
			outcome = append(outcome, name+":ok")
		case err != nil && !ran:
			outcome = append(outcome, name+":clean-error") // allowed: a clean error before the callback
		case err != nil && ran:
			fail("request-error-after-callback", "%s: %v", name, err)
		default:
			fail("request-returned-without-running", "%s returned nil without running the callback", name)
		}
	}
	done := 0
	total := len(p.Threads)
	tr := vsched.Run(vsched.Options{MaxSteps: 600, Patience: 4 * time.Second, Teardown: true}, prefix, func(s *vsched.Sched) {
		// preloaded shards: loaded by a finished request, idle, timer armed
		for _, id := range p.Preload {
			sm.DoWithShard(col, id, func(*shard.Shard) error { return nil })
		}
		for i, th := range p.Threads {
			i, th := i, th
			name := fmt.Sprintf("T%d", i+1)
			s.Go(name, func() {
				switch th.Kind {
				case "req":
					request(name+".a", th.Shard)
					if th.Twice {
						vsched.Point("between-requests")
						request(name+".b", th.Shard)
					}
				case "del":
					vsched.Point("delete-begin")
					if _, err := sm.DeleteCollectionShards(col); err != nil {
						fail("delete-collection-error", "%v", err)
					}
					outcome = append(outcome, name+":deleted")
				}
				done++
			})
		}
		// afterwards new requests can load shards again
		s.Go("P", func() {
			vsched.PointIf("probe-start", func() bool { return done == total })
			for _, id := range []string{"s1", "s2"} {
				request("probe", id)
			}
		})
	})
	if tr.Unsettled && strings.Contains(tr.Dump, "bbolt.flock") {
		fail("shard-file-open-twice", "a goroutine is waiting for the file lock of a shard database that this process already holds open:\n%s", clipDump(tr.Dump, "bbolt.flock"))
		tr.Unsettled = false
	}
	// let leftover goroutines finish (Teardown woke them and fired the timers)
	deadline := time.Now().Add(20 * time.Millisecond)
	for !tr.Deadlock && runtime.NumGoroutine() > baseline && time.Now().Before(deadline) {
		time.Sleep(200 * time.Microsecond)
	}
	execCount++
	if runtime.NumGoroutine() > 45 || execCount > 300 {
		pool.RequestRecycle()
	}
	return tr, viols, strings.Join(outcome, ",")
}

func clipDump(dump, needle string) string {
	for _, b := range strings.Split(dump, "\n\n") {
		if strings.Contains(b, needle) {
			if len(b) > 2500 {
				b = b[:2500]
			}
			return b
		}
	}
	return ""
}

func master(cfg *harness.Config, rep *harness.Report) {
	rep.Rule = "programs: threads from {request(s1), request(s1) twice, request(s2), delete collection} (2-4 threads) x shards preloaded-and-idle or not x backups on/off; the idle timer of every loaded shard is a controller transition that can fire at any scheduling point while armed; scheduling points: every Lock/RLock/Unlock of the real shardmgr.go (shims), callback entry/middle/exit, deletion begin; all interleavings with at most `bound` preemptions. Invariants: the callback only runs on a usable shard handle (else a clean error before the callback), never two descriptors on one shard file, shard files present while a request uses them, no deadlock (every call returns), and a final probe can load and use every shard again"
	rep.Assumptions = []string{"virtual timer follows the Go >= 1.23 Stop/Reset contract; it fires only at quiescent points, i.e. while the cleanup goroutine waits in its select", "channel operations of shardmgr.go are real; quiescence is a stop-the-world goroutine snapshot with every goroutine blocked", "lock operations are cooperative shims (sequentially consistent)"}
	p := pool.New(pool.Options{CPUsPerWorker: 1, JobTimeout: 300 * time.Second})
	if cfg.Replay != "" {
		var r schedx.Replay
		if err := harness.LoadReplay(cfg.Replay, &r); err != nil {
			panic(err)
		}
		for i := 0; i < 5; i++ {
			t0 := time.Now()
			tr, viols, out := run(r.Program, r.Choices)
			fmt.Printf("took %v snapshots=%d settle=%v\n", time.Since(t0), tr.Snapshots, time.Duration(tr.SettleNs))
			fmt.Printf("replay %d: %d steps, diverged=%q deadlock=%v outcome=%s, %d violation(s)\n", i+1, len(tr.Steps), tr.Diverged, tr.Deadlock, out, len(viols))
			if tr.Deadlock {
				viols = append(viols, schedlib.V{Sig: "deadlock", Detail: fmt.Sprintf("no transition enabled while %v are unfinished", tr.Stuck)})
			}
			if i == 4 {
				for _, v := range viols {
					rep.Violate(harness.Violation{Sig: v.Sig, Detail: v.Detail, Replay: r})
				}
			}
		}
		return
	}
	req1 := Thread{Kind: "req", Shard: "s1"}
	req1x2 := Thread{Kind: "req", Shard: "s1", Twice: true}
	req2 := Thread{Kind: "req", Shard: "s2"}
	del := Thread{Kind: "del"}
	two := [][]Thread{{req1, del}, {req1, req1}, {req1x2, del}}
	three := [][]Thread{{req1, req2, del}, {req1, del, req1}, {del, del, req1}}
	mk := func(sets [][]Thread, pres [][]string, backups []bool) []any {
		var out []any
		for _, ts := range sets {
			for _, pre := range pres {
				for _, b := range backups {
					out = append(out, Program{Threads: ts, Backups: b, Preload: pre})
				}
			}
		}
		return out
	}
	type phase struct {
		name     string
		programs []any
		bound    int
	}
	twoQuick := append(mk(two, [][]string{nil, {"s1"}}, []bool{false}), Program{Threads: []Thread{req1, del}, Backups: true, Preload: []string{"s1"}})
	phases := []phase{
		{"two-thread programs, bound 0", twoQuick, 0},
		{"three-thread programs (s1 preloaded), bound 0", mk(three, [][]string{{"s1"}}, []bool{false}), 0},
		{"two-thread programs, bound 1", twoQuick, 1},
	}
	if !cfg.Quick() {
		twoAll := mk(two, [][]string{nil, {"s1"}, {"s1", "s2"}}, []bool{false, true})
		threeAll := mk(three, [][]string{nil, {"s1"}, {"s1", "s2"}}, []bool{false})
		four := []any{Program{Threads: []Thread{req1, req2, del, req1x2}, Preload: []string{"s1"}}}
		phases = []phase{
			{"two-thread programs, bound 0", twoAll, 0},
			{"three-thread programs, bound 0", threeAll, 0},
			{"two-thread programs, bound 1", twoAll, 1},
			{"four-thread program, bound 0", four, 0},
			{"three-thread programs, bound 1", threeAll, 1},
			{"two-thread programs, bound 2", twoAll, 2},
		}
	}
	if pj := cfg.Extra["program"]; pj != "" {
		var one Program
		if err := json.Unmarshal([]byte(pj), &one); err != nil {
			panic(err)
		}
		phases = []phase{{"one program, bound 0", []any{one}, 0}, {"one program, bound 1", []any{one}, 1}}
	}
	sigSeen := map[string]int{}
	var st schedx.Stats
	phaseInfo := map[string]any{}
	bound := 0
	for _, ph := range phases {
		before := rep.Exhaustive
		s1 := schedx.Explore(cfg, rep, p, ph.programs, ph.bound, 0, sigSeen)
		phaseInfo[ph.name] = map[string]any{"programs": s1.Programs, "executions": s1.Executions, "steps": s1.Steps, "completed": rep.Exhaustive || !before}
		st.Programs += s1.Programs
		st.Executions += s1.Executions
		st.Steps += s1.Steps
		st.Diverged += s1.Diverged
		st.Retries += s1.Retries
		st.Horizon += s1.Horizon
		if ph.bound > bound && rep.Exhaustive {
			bound = ph.bound
		}
	}
	rep.Set("phases", phaseInfo)
	rep.States = int64(rep.OutcomeCount())
	rep.Set("programs", st.Programs)
	rep.Set("executions", st.Executions)
	rep.Set("preemption_bound_completed", bound)
	rep.Set("replay_divergences", st.Diverged)
	rep.Set("replay_retries", st.Retries)
	rep.Set("horizon_hits", st.Horizon)
	if st.Diverged > 0 {
		rep.NotExhaustive(fmt.Sprintf("%d executions diverged while replaying their prefix (nondeterminism; never a verdict)", st.Diverged))
	}
	if len(sigSeen) > 0 {
		rep.Set("violation_counts", sigSeen)
	}
}

func main() {
	schedlib.MaxPerJob = 60
	harness.Main("C12", schedlib.Handler(run), master, "model_checking")
}
