// C12 — shard loading, idle unloading and collection deletion are safe and
// deadlock-free.  Stateless preemption-bounded search over all interleavings
// of requests, collection deletion and the idle timer (a controller-owned
// virtual timer that may fire at any scheduling point) on the REAL
// ShardManager with real bbolt shard files; shardmgr.go's sync and time
// imports are redirected to the scheduler shims by the build overlay.
package main

import (
	"bytes"
	"encoding/json"
	"fmt"
	"os"
	"path/filepath"
	"runtime"
	"strings"
	"sync"
	"time"

	"github.com/semafind/semadb/cluster"
	"github.com/semafind/semadb/models"
	"github.com/semafind/semadb/shard"
	"github.com/semafind/semadb/zzverif/vsched"
	"github.com/semafind/semadb/zzverif/vtime"

	"semaverif/engine/harness"
	"semaverif/engine/pool"
	"semaverif/engine/schedx"
	"semaverif/harness/schedlib"
)

// Thread is one harness thread: a request on a shard, or a collection deletion.
type Thread struct {
	Kind  string `json:"kind"` // req | del | repair | reqsib (a request on shard s1 of the sibling collection "col2")
	Shard string `json:"shard,omitempty"`
	Twice bool   `json:"twice,omitempty"` // a request thread issues two requests in a row
}

// Program is one exploration unit.
type Program struct {
	Threads []Thread `json:"threads"`
	Backups bool     `json:"backups"`
	Preload []string `json:"preload,omitempty"` // shards loaded (and idle) before the threads start
	Damaged []string `json:"damaged,omitempty"` // shards whose database file is garbage at the start (a "repair" thread removes it)
	Free    bool     `json:"free,omitempty"`    // race pass: plain goroutines, no scheduler, real locks and a real (short) idle timer
	// BackupFails: the backup made at idle unload returns an error (a stray file in the shard
	// directory whose name the backup rotation cannot parse); the unload itself must still happen
	BackupFails bool `json:"backupFails,omitempty"`
	// Sibling: the same user has a second collection, "col2", whose id extends the id of "col";
	// its shard s1 is loaded before the threads start and must live through the deletion of "col"
	Sibling bool `json:"sibling,omitempty"`
	// RelRoot: the manager is configured with a RELATIVE spelling of its root directory (as every
	// shipped configuration does: ./data); the harness keeps using the absolute one
	RelRoot bool `json:"relRoot,omitempty"`
}

const garbage = "this is not a bbolt database, it only has to fail to open"

func scratch() string {
	if d := os.Getenv("VERIF_SCRATCH"); d != "" {
		return d
	}
	return "/dev/shm"
}

var execCount int

func openFds(path string) int {
	ents, err := os.ReadDir("/proc/self/fd")
	if err != nil {
		return -1
	}
	n := 0
	for _, e := range ents {
		if t, err := os.Readlink("/proc/self/fd/" + e.Name()); err == nil && t == path {
			n++
		}
	}
	return n
}

func run(raw json.RawMessage, prefix []string) (*vsched.Trace, []schedlib.V, string) {
	var p Program
	if err := json.Unmarshal(raw, &p); err != nil {
		panic(err)
	}
	root, err := os.MkdirTemp(scratch(), "c12")
	if err != nil {
		panic(err)
	}
	defer os.RemoveAll(root)
	baseline := runtime.NumGoroutine()
	var viols []schedlib.V
	var hmu sync.Mutex // harness bookkeeping (uncontended under the scheduler; needed by the free-running race pass)
	fail := func(sig, format string, a ...any) {
		hmu.Lock()
		defer hmu.Unlock()
		if len(viols) < 8 {
			viols = append(viols, schedlib.V{Sig: sig, Detail: fmt.Sprintf(format, a...)})
		}
	}
	plan := models.UserPlan{Name: "p", MaxPointSize: 1 << 20, MaxCollectionPointCount: 1000, MaxCollections: 5}
	if p.Backups {
		plan.ShardBackupFrequency, plan.ShardBackupCount = 1, 2
	}
	col := models.Collection{UserId: "alice", Id: "col", IndexSchema: models.IndexSchema{}, UserPlan: plan}
	timeout := 3600
	if p.Free {
		timeout = 0 // the real idle timer fires at once: unloading races with the requests for real
	}
	cfgRoot := root
	if p.RelRoot {
		if cwd, err := os.Getwd(); err == nil {
			if rel, err := filepath.Rel(cwd, root); err == nil {
				cfgRoot = rel
			}
		}
		if filepath.IsAbs(cfgRoot) {
			panic("no relative spelling of " + root)
		}
	}
	sm := cluster.NewShardManager(cluster.ShardManagerConfig{RootDir: cfgRoot, ShardTimeout: timeout, MaxCacheSize: -1})
	vtime.ResetNames()
	shardPath := func(id string) string {
		return filepath.Join(root, cluster.USERCOLSDIR, col.UserId, col.Id, id, "sharddb.bbolt")
	}
	var outcome []string
	note := func(s string) {
		hmu.Lock()
		outcome = append(outcome, s)
		hmu.Unlock()
	}
	if p.BackupFails {
		for _, id := range []string{"s1", "s2"} {
			os.MkdirAll(filepath.Dir(shardPath(id)), 0755)
			os.WriteFile(filepath.Join(filepath.Dir(shardPath(id)), "before-upgrade.backup"), []byte("x"), 0644)
		}
	}
	damaged := map[string]bool{}
	for _, id := range p.Damaged {
		os.MkdirAll(filepath.Dir(shardPath(id)), 0755)
		os.WriteFile(shardPath(id), []byte(garbage+"\n"), 0644)
		damaged[id] = true
	}
	request := func(name, shardId string) (ok bool) {
		ran := false
		err := sm.DoWithShard(col, shardId, func(s *shard.Shard) (rerr error) {
			ran = true
			defer func() {
				if r := recover(); r != nil {
					fail("request-panicked-on-shard", "%s on %s: panic inside the callback: %v", name, shardId, r)
				}
			}()
			vsched.Point("callback-enter " + shardId)
			if _, err := s.Info(); err != nil {
				fail("request-ran-on-closed-shard", "%s: the callback runs but the shard handle of %s is unusable: %v", name, shardId, err)
			}
			if n := openFds(shardPath(shardId)); n > 1 {
				fail("shard-file-open-twice", "%s: %d descriptors are open on %s while a request uses it", name, n, shardPath(shardId))
			}
			vsched.Point("callback-middle " + shardId)
			if _, err := os.Stat(shardPath(shardId)); err != nil {
				fail("shard-files-removed-under-request", "%s: the shard file of %s vanished while the request was using it: %v", name, shardId, err)
			}
			if _, err := s.Info(); err != nil {
				fail("request-ran-on-closed-shard", "%s: the shard handle of %s became unusable during the callback: %v", name, shardId, err)
			}
			vsched.Point("callback-exit " + shardId)
			return nil
		})
		switch {
		case err == nil && ran:
			note(name + ":ok")
			return true
		case err != nil && !ran:
			note(name + ":clean-error") // allowed: a clean error before the callback
		case err != nil && ran:
			fail("request-error-after-callback", "%s: %v", name, err)
		default:
			fail("request-returned-without-running", "%s returned nil without running the callback", name)
		}
		return false
	}
	col2 := col
	col2.Id = "col2"
	sibPath := filepath.Join(root, cluster.USERCOLSDIR, col2.UserId, col2.Id, "s1", "sharddb.bbolt")
	sibRefused := false
	sibRequest := func(name string) {
		ran := false
		err := sm.DoWithShard(col2, "s1", func(sh *shard.Shard) error {
			ran = true
			vsched.Point("callback-enter col2/s1")
			if _, err := sh.Info(); err != nil {
				fail("request-ran-on-closed-shard", "%s: the callback runs but the shard handle of col2/s1 is unusable: %v", name, err)
			}
			if n := openFds(sibPath); n > 1 {
				fail("shard-file-open-twice", "%s: %d descriptors are open on %s while a request uses it", name, n, sibPath)
			}
			return nil
		})
		if err != nil && ran {
			fail("request-error-after-callback", "%s on col2/s1: %v", name, err)
		}
		if err != nil {
			// a clean refusal (e.g. its idle unload is under way) is allowed; whether the shard
			// can be loaded again is decided after the run
			hmu.Lock()
			sibRefused = true
			hmu.Unlock()
		}
		note(name + ":sib")
	}
	done := 0
	var refused []string // shards the final probe could not use although their file is intact or absent
	total := len(p.Threads)
	if p.Free {
		return freeRun(p, sm, col, request, fail, &hmu, &done), viols, ""
	}
	tr := vsched.Run(vsched.Options{MaxSteps: 600, Patience: 4 * time.Second, Teardown: true}, prefix, func(s *vsched.Sched) {
		// preloaded shards: loaded by a finished request, idle, timer armed
		for _, id := range p.Preload {
			sm.DoWithShard(col, id, func(*shard.Shard) error { return nil })
		}
		if p.Sibling {
			sm.DoWithShard(col2, "s1", func(*shard.Shard) error { return nil })
		}
		for i, th := range p.Threads {
			i, th := i, th
			name := fmt.Sprintf("T%d", i+1)
			s.Go(name, func() {
				switch th.Kind {
				case "req":
					request(name+".a", th.Shard)
					if th.Twice {
						vsched.Point("between-requests")
						request(name+".b", th.Shard)
					}
				case "del":
					vsched.Point("delete-begin")
					if _, err := sm.DeleteCollectionShards(col); err != nil {
						fail("delete-collection-error", "%v", err)
					}
					note(name + ":deleted")
				case "reqsib":
					sibRequest(name)
				case "repair":
					// the cause of a failing open goes away (the damaged file is removed)
					vsched.Point("repair-begin " + th.Shard)
					// only the damaged file: a deletion may have removed it and a later
					// request created a proper database in its place
					if b, err := os.ReadFile(shardPath(th.Shard)); err == nil && bytes.HasPrefix(b, []byte(garbage)) {
						os.Remove(shardPath(th.Shard))
					}
					hmu.Lock()
					delete(damaged, th.Shard)
					hmu.Unlock()
					note(name + ":repaired")
				}
				hmu.Lock()
				done++
				hmu.Unlock()
			})
		}
		// afterwards new requests can load shards again
		s.Go("P", func() {
			vsched.PointIf("probe-start", func() bool { return done == total })
			for !vsched.Controlled() { // free-running: wait for the other threads for real
				hmu.Lock()
				d := done
				hmu.Unlock()
				if d == total {
					break
				}
				time.Sleep(50 * time.Microsecond)
			}
			if p.Sibling {
				sibRequest("probe")
			}
			for _, id := range []string{"s1", "s2"} {
				ok := request("probe", id)
				hmu.Lock()
				if !ok && !damaged[id] {
					// may be transient (the idle unload of this shard is under way): decided after the run
					refused = append(refused, id)
				}
				hmu.Unlock()
			}
		})
	})
	if tr.Unsettled && strings.Contains(tr.Dump, "bbolt.flock") {
		fail("shard-file-open-twice", "a goroutine is waiting for the file lock of a shard database that this process already holds open:\n%s", clipDump(tr.Dump, "bbolt.flock"))
		tr.Unsettled = false
	}
	// A refusal during an unload that is under way is a clean, transient error.  Once
	// every thread has finished and the clean-up goroutines have run, the shard must
	// load: a refusal that persists is a state the manager does not recover from.
	if !tr.Deadlock && !tr.Unsettled && tr.Diverged == "" {
		for _, id := range refused {
			var err error
			for attempt := 0; attempt < 400; attempt++ {
				if err = sm.DoWithShard(col, id, func(*shard.Shard) error { return nil }); err == nil {
					break
				}
				time.Sleep(5 * time.Millisecond)
			}
			if err != nil {
				fail("shard-cannot-be-loaded-again", "after all threads and clean-up goroutines finished, requests on %s (whose database file is intact or absent) are still refused after 2 s of retries: %v", id, err)
			}
		}
		if sibRefused {
			var err error
			for attempt := 0; attempt < 400; attempt++ {
				if err = sm.DoWithShard(col2, "s1", func(*shard.Shard) error { return nil }); err == nil {
					break
				}
				time.Sleep(5 * time.Millisecond)
			}
			if err != nil {
				fail("shard-cannot-be-loaded-again", "after all threads and clean-up goroutines finished, requests on col2/s1 (a collection nobody deleted) are still refused after 2 s of retries: %v", err)
			}
			refused = append(refused, "col2/s1")
		}
		if len(refused) > 0 {
			// the retries loaded shards outside the scheduler: close them so that their
			// clean-up goroutines do not outlive this execution
			sm.VerifCloseAllShards()
		}
	}
	// let leftover goroutines finish (Teardown woke them and fired the timers)
	deadline := time.Now().Add(20 * time.Millisecond)
	for !tr.Deadlock && runtime.NumGoroutine() > baseline && time.Now().Before(deadline) {
		time.Sleep(200 * time.Microsecond)
	}
	execCount++
	if runtime.NumGoroutine() > 45 || execCount > 300 {
		pool.RequestRecycle()
	}
	return tr, viols, strings.Join(outcome, ",")
}

// freeRun executes the same thread bodies as plain goroutines (no controller:
// a cooperative scheduler's hand-offs are happens-before edges that would blind
// the race detector).  Built with -race by the thorough tier's race pass.
func freeRun(p Program, sm *cluster.ShardManager, col models.Collection, request func(name, shard string) bool, fail func(string, string, ...any), hmu *sync.Mutex, done *int) *vsched.Trace {
	for _, id := range p.Preload {
		sm.DoWithShard(col, id, func(*shard.Shard) error { return nil })
	}
	var wg sync.WaitGroup
	for i, th := range p.Threads {
		i, th := i, th
		wg.Add(1)
		go func() {
			defer wg.Done()
			name := fmt.Sprintf("T%d", i+1)
			switch th.Kind {
			case "req":
				request(name+".a", th.Shard)
				if th.Twice {
					request(name+".b", th.Shard)
				}
			case "del":
				sm.DeleteCollectionShards(col)
			}
		}()
	}
	finished := make(chan struct{})
	go func() { wg.Wait(); close(finished) }()
	select {
	case <-finished:
	case <-time.After(20 * time.Second):
		fail("free-run-hung", "the threads of %+v did not finish within 20 s when run freely", p.Threads)
	}
	sm.VerifCloseAllShards()
	return &vsched.Trace{}
}

func clipDump(dump, needle string) string {
	for _, b := range strings.Split(dump, "\n\n") {
		if strings.Contains(b, needle) {
			if len(b) > 2500 {
				b = b[:2500]
			}
			return b
		}
	}
	return ""
}

func master(cfg *harness.Config, rep *harness.Report) {
	rep.Rule = "(three core programs also run with the manager's root directory spelled relative to the working directory, as the shipped configurations do) programs: threads from {request(s1), request(s1) twice, request(s2), delete collection} (2-4 threads) x shards preloaded-and-idle or not x backups on/off, plus programs in which the database file of s1 cannot be opened until a repair thread removes it, programs in which the backup made at idle unload fails, and a program with a second collection of the same user whose id extends the deleted one's; the idle timer of every loaded shard is a controller transition that can fire at any scheduling point while armed; scheduling points: every Lock/RLock/Unlock of the real shardmgr.go (shims), callback entry/middle/exit, deletion begin; all interleavings with at most `bound` preemptions. Invariants: the callback only runs on a usable shard handle (else a clean error before the callback), never two descriptors on one shard file, shard files present while a request uses them, no deadlock (every call returns), and a final probe can load and use every shard again (also after opens that failed)"
	rep.Assumptions = []string{"virtual timer follows the Go >= 1.23 Stop/Reset contract; it fires only at quiescent points, i.e. while the cleanup goroutine waits in its select", "channel operations of shardmgr.go are real; quiescence is a stop-the-world goroutine snapshot with every goroutine blocked", "lock operations are cooperative shims (sequentially consistent)"}
	p := pool.New(pool.Options{CPUsPerWorker: 1, JobTimeout: 300 * time.Second})
	if cfg.Replay != "" {
		var r schedx.Replay
		if err := harness.LoadReplay(cfg.Replay, &r); err != nil {
			panic(err)
		}
		for i := 0; i < 5; i++ {
			t0 := time.Now()
			tr, viols, out := run(r.Program, r.Choices)
			fmt.Printf("took %v snapshots=%d settle=%v\n", time.Since(t0), tr.Snapshots, time.Duration(tr.SettleNs))
			fmt.Printf("replay %d: %d steps, diverged=%q deadlock=%v outcome=%s, %d violation(s)\n", i+1, len(tr.Steps), tr.Diverged, tr.Deadlock, out, len(viols))
			if tr.Deadlock {
				viols = append(viols, schedlib.V{Sig: "deadlock", Detail: fmt.Sprintf("no transition enabled while %v are unfinished", tr.Stuck)})
			}
			if i == 4 {
				for _, v := range viols {
					rep.Violate(harness.Violation{Sig: v.Sig, Detail: v.Detail, Replay: r})
				}
			}
		}
		return
	}
	if cfg.Extra["race"] != "" {
		cfg.NoEvidence = true
		racePass(cfg, rep)
		return
	}
	req1 := Thread{Kind: "req", Shard: "s1"}
	req1x2 := Thread{Kind: "req", Shard: "s1", Twice: true}
	req2 := Thread{Kind: "req", Shard: "s2"}
	del := Thread{Kind: "del"}
	repair1 := Thread{Kind: "repair", Shard: "s1"}
	two := [][]Thread{{req1, del}, {req1, req1}, {req1x2, del}}
	three := [][]Thread{{req1, req2, del}, {req1, del, req1}, {del, del, req1}}
	mk := func(sets [][]Thread, pres [][]string, backups []bool) []any {
		var out []any
		for _, ts := range sets {
			for _, pre := range pres {
				for _, b := range backups {
					out = append(out, Program{Threads: ts, Backups: b, Preload: pre})
				}
			}
		}
		return out
	}
	type phase struct {
		name     string
		programs []any
		bound    int
	}
	twoQuick := append(mk(two, [][]string{nil, {"s1"}}, []bool{false}), Program{Threads: []Thread{req1, del}, Backups: true, Preload: []string{"s1"}})
	// a shard whose database file cannot be opened at first: requests get a clean error, and once the
	// cause is gone the shard must load again
	failing := []any{Program{Threads: []Thread{req1, repair1}, Damaged: []string{"s1"}}, Program{Threads: []Thread{req1x2, repair1, del}, Damaged: []string{"s1"}}}
	twoQuick = append(twoQuick, failing...)
	// the backup at idle unload fails: the shard must still be closed and load again
	twoQuick = append(twoQuick, Program{Threads: []Thread{req1, req1}, Backups: true, BackupFails: true, Preload: []string{"s1"}})
	// a sibling collection whose id extends the deleted collection's id keeps its loaded shard
	sib := Thread{Kind: "reqsib"}
	sibling := Program{Threads: []Thread{del, sib}, Preload: []string{"s1"}, Sibling: true}
	// the same core programs with the root directory spelled relative to the working directory
	twoQuick = append(twoQuick, Program{Threads: []Thread{req1, del}, Preload: []string{"s1"}, RelRoot: true}, Program{Threads: []Thread{req1, del}, RelRoot: true}, Program{Threads: []Thread{req1, req1}, Backups: true, Preload: []string{"s1"}, RelRoot: true})
	phases := []phase{
		{"two-thread programs, bound 0", append(append([]any{}, twoQuick...), sibling), 0},
		{"three-thread programs (s1 preloaded), bound 0", mk(three, [][]string{{"s1"}}, []bool{false}), 0},
		{"two-thread programs, bound 1", twoQuick, 1},
	}
	if !cfg.Quick() {
		twoAll := mk(two, [][]string{nil, {"s1"}, {"s1", "s2"}}, []bool{false, true})
		threeAll := mk(three, [][]string{nil, {"s1"}, {"s1", "s2"}}, []bool{false})
		twoAll = append(twoAll, failing...)
		twoAll = append(twoAll, Program{Threads: []Thread{req1, del}, Preload: []string{"s1"}, RelRoot: true}, Program{Threads: []Thread{req1, del}, RelRoot: true}, Program{Threads: []Thread{req1x2, del}, Backups: true, Preload: []string{"s1"}, RelRoot: true})
		twoAll = append(twoAll, sibling)
		twoAll = append(twoAll, Program{Threads: []Thread{req1, req1}, Backups: true, BackupFails: true, Preload: []string{"s1"}}, Program{Threads: []Thread{req1x2, del}, Backups: true, BackupFails: true, Preload: []string{"s1"}})
		four := []any{Program{Threads: []Thread{req1, req2, del, req1x2}, Preload: []string{"s1"}}}
		phases = []phase{
			{"two-thread programs, bound 0", twoAll, 0},
			{"three-thread programs, bound 0", threeAll, 0},
			{"two-thread programs, bound 1", twoAll, 1},
			{"four-thread program, bound 0", four, 0},
			{"three-thread programs, bound 1", threeAll, 1},
			{"two-thread programs, bound 2", twoAll, 2},
		}
	}
	if pj := cfg.Extra["program"]; pj != "" {
		var one Program
		if err := json.Unmarshal([]byte(pj), &one); err != nil {
			panic(err)
		}
		phases = []phase{{"one program, bound 0", []any{one}, 0}, {"one program, bound 1", []any{one}, 1}}
	}
	sigSeen := map[string]int{}
	var st schedx.Stats
	phaseInfo := map[string]any{}
	bound := 0
	for _, ph := range phases {
		before := rep.Exhaustive
		s1 := schedx.Explore(cfg, rep, p, ph.programs, ph.bound, 0, sigSeen)
		phaseInfo[ph.name] = map[string]any{"programs": s1.Programs, "executions": s1.Executions, "steps": s1.Steps, "completed": rep.Exhaustive || !before}
		st.Programs += s1.Programs
		st.Executions += s1.Executions
		st.Steps += s1.Steps
		st.Diverged += s1.Diverged
		st.Retries += s1.Retries
		st.Horizon += s1.Horizon
		if ph.bound > bound && rep.Exhaustive {
			bound = ph.bound
		}
	}
	rep.Set("phases", phaseInfo)
	rep.Set("races", schedlib.LoadRaceSummary(cfg.Out, "C12"))
	rep.States = int64(rep.OutcomeCount())
	rep.Set("programs", st.Programs)
	rep.Set("executions", st.Executions)
	rep.Set("preemption_bound_completed", bound)
	rep.Set("replay_divergences", st.Diverged)
	rep.Set("replay_retries", st.Retries)
	rep.Set("horizon_hits", st.Horizon)
	if st.Diverged > 0 {
		rep.NotExhaustive(fmt.Sprintf("%d executions diverged while replaying their prefix (nondeterminism; never a verdict)", st.Diverged))
	}
	if len(sigSeen) > 0 {
		rep.Set("violation_counts", sigSeen)
	}
}

// racePass: the same thread bodies free-running under the race detector
// (binary built with -race by check.sh), many repetitions per program.
func racePass(cfg *harness.Config, rep *harness.Report) {
	req1 := Thread{Kind: "req", Shard: "s1"}
	req1x2 := Thread{Kind: "req", Shard: "s1", Twice: true}
	req2 := Thread{Kind: "req", Shard: "s2"}
	del := Thread{Kind: "del"}
	var programs []any
	reps := 60
	progs := 0
	for _, ts := range [][]Thread{{req1, del}, {req1, req1}, {req1x2, del}, {req1, req2, del}, {req1, del, req1}, {del, del, req1}, {req1x2, req1x2, del, req2}} {
		for _, pre := range [][]string{nil, {"s1"}} {
			for _, b := range []bool{false, true} {
				progs++
				for r := 0; r < reps; r++ {
					programs = append(programs, Program{Threads: ts, Backups: b, Preload: pre, Free: true})
				}
			}
		}
	}
	old, _ := filepath.Glob(schedlib.RaceLogPrefix() + ".*")
	for _, f := range old {
		os.Remove(f)
	}
	p := pool.New(pool.Options{CPUsPerWorker: 2, JobTimeout: 120 * time.Second, ExtraEnv: schedlib.RaceEnv()})
	sigSeen := map[string]int{}
	st := schedx.Explore(cfg, rep, p, programs, 0, 0, sigSeen)
	races := schedlib.CollectRaces()
	path := schedlib.WriteRaceFile(cfg.Out, "C12", progs, int(st.Executions), races)
	fmt.Printf("C12 race pass: %d programs x %d free-running repetitions under -race, %d distinct data race(s) -> %s\n", progs, reps, len(races), path)
	for _, r := range races {
		fmt.Printf("  RACE (diagnostic) x%d: %s\n", r.Count, r.Key)
	}
	rep.States = 1
	rep.Set("race_pass", true)
}

func main() {
	schedlib.MaxPerJob = 60
	harness.Main("C12", schedlib.Handler(run), master, "model_checking")
}
