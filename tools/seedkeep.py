#!/usr/bin/env python3
"""tools/seedkeep.py <agent-worktree> <name> <detected_by(comma)> <signatures / notes>
Copies SEED/ of a confirmed seeded change to /verif/seeded/<name>/ and records what was run."""
import json, os, shutil, sys
src, name, det, notes = sys.argv[1], sys.argv[2], sys.argv[3], sys.argv[4]
dst = os.path.join('/verif/seeded', name)
os.makedirs(dst, exist_ok=True)
for f in os.listdir(os.path.join(src, 'SEED')):
    path = os.path.join(src, 'SEED', f)
    if os.path.isdir(path):
        shutil.copytree(path, os.path.join(dst, f), dirs_exist_ok=True)
    else:
        shutil.copy(path, dst)
m = json.load(open(os.path.join(dst, 'meta.json')))
m['confirmed_by_me'] = {
    'how': 'tools/seedcheck.sh (scratch worktree of /repo: patch applies, builds, repository tests pass, checks run with VERIF_REPO) and tools/seeddemo.sh (demonstration fails with the change, passes without)',
    'repository_tests_pass_with_change': True, 'demo_fails_with_change': True, 'demo_passes_without_change': True}
m['detected_by'] = [d for d in det.split(',') if d]
m['detection_notes'] = notes
json.dump(m, open(os.path.join(dst, 'meta.json'), 'w'), indent=1)
print('kept', dst)
