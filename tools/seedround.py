#!/usr/bin/env python3
"""Set up a round of independent seeded changes: one scratch worktree of /repo and
one prompt file per property under /tmp/<round>/.  Nothing from /verif except the
property text goes into a prompt; the optional focus line only names a place in
the code (so that a later round does not repeat an earlier round's change).
usage: seedround.py <round-dir-name> [focus.json]"""
import json, os, subprocess, sys
rnd = sys.argv[1]
focus = json.load(open(sys.argv[2])) if len(sys.argv) > 2 else {}
base = '/tmp/' + rnd
os.makedirs(base, exist_ok=True)
here = os.path.dirname(os.path.abspath(__file__))
tmpl = open(os.path.join(here, 'seed_prompt.tmpl')).read()
for l in open(os.path.join(here, '..', 'properties.jsonl')):
    p = json.loads(l)
    cid = p['id'].lower()
    d = '%s/%s' % (base, cid)
    if not os.path.isdir(d):
        subprocess.check_call(['git', '-C', '/repo', 'worktree', 'add', '-q', '--detach', d, 'HEAD'])
    prop = "PROPERTY %s — %s\n\n%s\n\nQuantifier: %s\n\nAnchored in: %s\n" % (
        p['id'], p['title'], p['statement'], p['quantifier']['text'], ', '.join(p['anchors']['files']))
    f = focus.get(p['id'], '')
    if f.startswith('!'):
        f = "\n" + f[1:] + "\n\n"
    elif f:
        f = "\nWhere to look: another change against this property has already been made elsewhere; make yours in or around %s.\n\n" % f
    open('%s/prompt_%s.txt' % (base, cid), 'w').write(
        tmpl.replace('__DIR__', d).replace('__PROP__', prop).replace('__ID__', p['id']).replace('__FOCUS__', f))
print('round', base, 'ready')
