#!/bin/bash
# tools/seeddemo.sh <agent-worktree>   (the change applied, demo in place, SEED/ filled)
# Confirms the demonstration: fails with the change, passes without it.
set -u
D="$1"
export GOFLAGS=-mod=mod GOPROXY=off
CMD=$(python3 -c "import json;print(json.load(open('$D/SEED/meta.json'))['demo_cmd'])")
cd "$D"
echo "== demo with the change (must fail)"
bash -c "$CMD" > /tmp/seeddemo.$$.1 2>&1; rc1=$?
tail -4 /tmp/seeddemo.$$.1 | cut -c1-200
git apply -R SEED/patch.diff || { echo "cannot reverse patch"; exit 2; }
echo "== demo without the change (must pass)"
bash -c "$CMD" > /tmp/seeddemo.$$.2 2>&1; rc2=$?
tail -3 /tmp/seeddemo.$$.2 | cut -c1-200
git apply SEED/patch.diff
rm -f /tmp/seeddemo.$$.*
echo "RESULT with-change-rc=$rc1 without-change-rc=$rc2"
[ $rc1 -ne 0 ] && [ $rc2 -eq 0 ]
