#!/bin/bash
# tools/seedcheck.sh <seed-dir> [checks...]
# Confirms a seeded property-breaking change and runs the checks against it, in
# a scratch worktree of /repo outside /repo and /verif (removed afterwards).
#   <seed-dir> contains patch.diff, meta.json, the demonstration and HOWTO.txt
# Steps: apply patch -> build -> repository tests must PASS -> run the listed
# checks (default: the property named in meta.json) with VERIF_REPO=<worktree>.
set -u
SEED="$(cd "$1" && pwd)"; shift
export GOFLAGS=-mod=mod GOPROXY=off
WT="/tmp/seedcheck.$$"
git -C /repo worktree add -q --detach "$WT" HEAD || exit 2
trap 'git -C /repo worktree remove --force "$WT" >/dev/null 2>&1; rm -rf "$WT"' EXIT
if ! git -C "$WT" apply "$SEED/patch.diff"; then echo "PATCH DOES NOT APPLY"; exit 2; fi
echo "== build"; (cd "$WT" && go build ./... 2>&1 | grep -v -e hdf5 -e '^#' -e 'compilation terminated' -e '      |' | head -5)
if [ "${SKIP_TESTS:-0}" != 1 ]; then
  echo "== repository tests with the change"
  (cd "$WT" && go test -vet=off -count=1 ./... 2>&1 | grep -v "no test files" | grep -v -e hdf5 -e loadhdf5 -e 'compilation terminated' -e '      |' -e '^#' -e '^FAIL$' | grep -v "^ok" | head -20)
fi
PROPS="$*"
if [ -z "$PROPS" ]; then PROPS=$(python3 -c "import json;print(json.load(open('$SEED/meta.json'))['property'])"); fi
cd /verif
for P in $PROPS; do
  echo "== check $P against the change"
  VERIF_REPO="$WT" VERIF_OUT="/tmp/seedcheck.$$.out" ./check.sh "$P" ${TIER:+--tier $TIER} 2>&1 | grep -E "VIOLATION|sig:|^C[0-9]+ tier|KNOWN" | cut -c1-300 | head -12
done
rm -rf "/tmp/seedcheck.$$.out"
