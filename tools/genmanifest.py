#!/usr/bin/env python3
"""Regenerates /verif/MANIFEST.json from the table below (single source of truth)."""
import json, os, subprocess
HERE = os.path.dirname(os.path.dirname(os.path.abspath(__file__)))
hook_commits = [l.split()[0] for l in subprocess.run(
    ["git", "-C", "/repo", "log", "--format=%h %s"], capture_output=True, text=True).stdout.splitlines()
    if l.split(" ", 1)[1].startswith("verif hook")]

CHECKS = {
 # id: (built, engine, category, level text, level note, technique, design_ref)
 "C13": (True, "seqx-input", "model_checking",
   "Exhaustive enumeration of stated finite families: every non-empty subset of 7 server names under all |S|! orderings, bounded ordering families for sizes 8..16, and every single-server addition/removal over prefix chains and all small sets, each against 4096 keys, on the real RendezvousHash. Complete for the families, not for all strings.",
   "keys and server names outside the enumerated families are not covered; xxhash is exercised, not modelled",
   "bounded-exhaustive input enumeration against the real function", "DESIGN.md §4 C13"),
 "C19": (True, "seqx-input", "model_checking",
   "Exhaustive enumeration of stated finite value families through the real encoders/decoders (verif export hooks for the unexported sortable and text-key codecs): round trip, injectivity, and key order = value order checked on adjacent elements of each value-sorted family (all pairs by transitivity), every Range/Prefix scan over 15-value numeric families, all strings of length<=2 over 7 bytes and a string family that is not prefix-closed, on memstore and bbolt, with every stored key and non-stored keys (prefixes of keys, key+00, predecessors) as bounds; thorough sweeps all 2^32 float32 patterns (vectors and widened float64) and 2^33 int64 values.",
   "int64/float64 values outside the families are reached only by the thorough sweeps; NaN excluded as the property states",
   "bounded-exhaustive input enumeration against the real codecs + exhaustive scan-bound enumeration", "DESIGN.md §4 C19"),
 "C20": (True, "seqx-input", "model_checking",
   "Every vector length 1..4096 x operand offsets x 8 value families on 7 implementations (asm kernels, dispatched functions, pure-Go fallbacks via hook) against a float64 reference with a rounding bound, NaN canaries around the operands, bit-exact symmetry; bit metrics for every length through the real binary vector store incl. all pairs for length<=6; haversine over all pairs of a 37x73 lattice.",
   "float values outside the eight families are not enumerated; AVX2/FMA CPU",
   "bounded-exhaustive input enumeration (all lengths) against reference definitions", "DESIGN.md §4 C20"),
 "C01": (True, "seqx", "model_checking",
   "Explicit-state breadth-first search over histories of insert/update/delete batches (25-symbol alphabet, depth 5 without indexes, depth 4 with the full seven-index schema, warm and reopened-after-every-batch instances, two start states; plus every history of length <= 2 over bulk batches of 10000 points, the HTTP maximum per request) executed on the real shard; after every batch the returned error/ids, reported count, read of every id, select-all and the raw point-store/counter buckets are compared with a plain-map reference model. Complete within the alphabet and depth.",
   "documents outside the alphabet; the order in which freed node ids are reused (Go map iteration) is not enumerated; states reached through a failed multi-point batch on an indexed schema are checked but not expanded (known finding F4 makes their futures schedule-dependent)",
   "explicit-state BFS over operation histories of the real code vs reference model", "DESIGN.md §4 C01"),
 "C02": (True, "seqx", "model_checking",
   "(A) the complete operator x boundary-value (x end value) query space for case-sensitive/-insensitive string, string-array, integer, float and nested-path indexes plus all _and/_or trees of depth<=2 over a 6-leaf pool on a fixed 13-point data set; (W) ~1.6k range / comparison / prefix / containsAny queries on a 1200-point data set of pairwise distinct values, before and after deleting 300 points; (B) breadth-first search to depth 5 (thorough 8, with state de-duplication on the full bucket contents) over write histories that insert, change, remove, re-add and delete indexed fields and reuse node ids, with a ~400-query battery after every batch; both storage backends; every query is validated on a clone, the search runs with the validated object and the answer is compared with direct evaluation of the pristine query's predicate on the model documents.",
   "values outside the boundary alphabets; only queries that pass Validate(); NaN not stored",
   "explicit-state BFS over write histories + exhaustive query-space enumeration vs reference evaluation", "DESIGN.md §4 C02"),
 "C04": (True, "seqx", "model_checking",
   "Breadth-first search to depth 3 (thorough 4) over write histories on a flat index for 10 (thorough 16) metric/quantiser combinations (none, binary fixed/learned, product 2x2) x 4 cache states (warm, reopened cold before every query, disabled, 1-byte limit); after every batch 4 queries x limits x weights x pre-filters must return exactly the k nearest admissible points under a float64 definition of the index distance (learned thresholds, product-quantiser centroids and centroid ids read back from the bucket and checked for consistency with the written vectors), ties at the cut either way. Plus, per euclidean combination, an alphabet with three batches whose commit fails after the index work, and per quantiser a history that fills the cache from the file (reopen, queries) and then writes on; the storage proxy overwrites what it handed out when a transaction ends (a slice kept beyond its transaction reads poison).",
   "product quantiser trained at 3 points (HTTP layer minimum is 1000; same code path); vectors from small per-metric pools; float32 tolerance",
   "explicit-state BFS over write histories x configurations vs brute-force k-NN reference", "DESIGN.md §4 C04"),
 "C05": (True, "seqx", "model_checking",
   "Breadth-first search to depth 3 (thorough 5, de-duplicated on the full bucket contents) over histories that insert, rewrite, blank out, remove and delete text fields (top-level and nested), from the empty and from a 6-document corpus, on warm, reopened and in-memory instances; after every batch ~500 text queries are compared with a brute-force tf-idf reference recomputed from the model (match set, scores, order, limit cut, hybrid score). Includes a batch that names one point twice (blanked both times).",
   "bleve's standard analyser is trusted; texts and queries from the stated alphabets",
   "explicit-state BFS over write histories vs brute-force tf-idf reference", "DESIGN.md §4 C05"),
 "C03": (True, "seqx", "model_checking",
   "Every write history up to depth 3 (thorough 4) over an 11-symbol alphabet (no merging: the warm graph cache is state outside the buckets), from the empty shard and from 30 lattice points, for 6 (thorough 12) metric/quantiser combinations (incl. product quantiser) on warm and reopened instances; after every batch ~430 graph searches (queries x limits x search sizes x weights x 6 pre-filters) are checked for the safety clauses of the property against the model, and for exact k-NN in the two stated regimes; the persisted graph is checked too. Each combination also has a small alphabet with three batches whose storage transaction fails to commit after the graph work is done (the warm answers must stay those of the committed state); the storage proxy overwrites every key / value it handed out when the transaction ends, so a slice kept beyond its transaction reads poison.",
   "random entry vector: oracles are shape independent; product quantiser trained at 3 points (HTTP layer minimum is 1000); vectors from small pools",
   "exhaustive enumeration of write histories of the real code vs reference (safety + brute-force k-NN in the exact regimes)", "DESIGN.md §4 C03"),
 "C10": (True, "seqx", "model_checking",
   "Every write history up to depth 4 (thorough 5) over 12 graph-hurting batches, and up to depth 2 (thorough 3) from 40 mutually equidistant points where the degree bound binds, for alpha {1.1,1.5} x degreeBound {32,64}, warm and reopened; after every batch the bucket dump is checked for node/vector/edge well-formedness, degree bound, max-id, point-store bijection and free-list disjointness, plus a full-window search. One alphabet per parameter set has three batches whose commit fails after the graph work is done. Two specs put the index on a nested property path (m.v) that updates reach through the parent object.",
   "duplicate edges not flagged; batches outside the alphabet",
   "exhaustive enumeration of write histories of the real code with a structural invariant on the persisted state", "DESIGN.md §4 C10"),
 "C06": (True, "seqx-input", "model_checking",
   "Exhaustive enumeration of all _and/_or query trees with 1-3 children and all two-level trees over a 7-leaf pool (graph vector, flat vector, two text, string, integer, _id) x 4 weight assignments (incl. an explicit zero on each kind of ranking leaf) on a fixed 8-point data set, both backends; result set, summed hybrid contributions and ranked-first/highest-first order are compared with a reference that evaluates the statement; on every 41st tree (thorough: every 5th) and every leaf, 11 select lists x 17 sort lists (every direction pattern over two and three keys) x 18 offset/limit pairs are checked (selected data exact, adjacent-pair sortedness with missing-last, page = contiguous slice of the full order).",
   "one data set; sort keys must be selected; ambiguous references (ties at a leaf limit) are skipped",
   "bounded-exhaustive enumeration of query trees / select / sort / paging inputs vs reference evaluation", "DESIGN.md §4 C06"),
 "C08": (True, "seqx", "model_checking",
   "Every write history up to depth 3 (thorough 4) over a 13-symbol alphabet (three batches meet an injected storage error after the index work) on a nine-index schema, with and without a learned binary quantiser, executed in lock-step on six instances (bbolt with unlimited / 1-byte / disabled shared cache, bbolt reopened with a fresh cache manager after every batch, memstore with unlimited and with disabled cache); after every batch each instance must answer the complete battery exactly like the reference model (so warm, evicted, disabled, cold and in-memory answers coincide) and the reopened file's buckets must be byte-identical before close, after reopen and after querying.",
   "approximate graph answers outside the exact regimes are not compared across instances; fsync/commit of bbolt trusted; rejected batches are not applied to memstore (as the property scopes it)",
   "exhaustive enumeration of write histories in lock-step over five configurations of the real code (differential + reference model)", "DESIGN.md §4 C08"),
 "C11": (True, "schedx", "model_checking",
   "Stateless preemption-bounded search over ALL interleavings of two (thorough: also three) transaction programs on the real cache manager: manager.go is compiled with its sync / sync/atomic imports redirected (build overlay generated from the working tree) to cooperative shims, so every Lock/RLock/TryRLock/Unlock and atomic.Bool operation is a scheduling point; 14 transaction shapes (incl. the same cache written twice) x evictor x manager size {-1,0,1,10} x initial map; quick: 1092 pair programs with <=1 preemption and 72 with <=2 (3.4M complete executions), thorough: all pairs <=2, triples <=1, core <=3. Monitors: writer isolation, no uncommitted state observed, scrapped caches never handed out, shared caches reflect committed storage, deadlock freedom, final write+commit probe on every cache.",
   "storage is a stand-in (per-cache committed version + per-shard single-writer token); sequentially consistent interleavings of the shimmed operations; usage protocol of the shard (each With returns before Commit)",
   "stateless DFS over schedules of the real code under a controlled scheduler, iterative preemption bounding", "DESIGN.md §4 C11"),
 "C07": (True, "faultx", "fault_enumeration",
   "For 26 (start state x batch) cases incl. the validation rejections, a 10000-point batch and an index whose construction fails: a counting run, then one run per fault point - every (bucket, kind in Put/Delete/ForEach/Scan/BucketOpen/TxBegin, ordinal) the batch issues (670 points) failing exactly that operation through the storage proxy installed with the verif accessor hook - and a run taking a crash image of the database file at every storage operation, at function-return and after commit (1203 images) - and one run per storage operation, reads included (1039 points, 143 of them issued by the calling goroutine), in which the process dies by a panic raised at that operation on the goroutine that issued the batch, so that the deferred functions between the operation and the caller run before the file is inspected. Failed call: observation battery + raw bucket digest identical to before on the running instance and after reopen; successful call: equals the reference model; images before commit and the file left by a death by panic = state before, after commit = model after; storage use after transaction end is recorded instead of crashing. Four cases run on a schema with a learned binary and a product quantiser whose trigger threshold the batch crosses; a call that reports success although the proxy handed it an injected error is a violation in its own right (storage-error-swallowed:<kind>@<call site>).",
   "Get cannot fail in the storage API; torn writes inside bbolt's own commit are trusted; goroutine interleavings inside a batch are those the real scheduler produced",
   "exhaustive enumeration of fault points and crash points of a write history on the real write path", "DESIGN.md §4 C07"),
 "C12": (True, "schedx", "model_checking",
   "Stateless preemption-bounded search over all interleavings of requests, collection deletion and the idle timer on the real ShardManager with real bbolt shard files: shardmgr.go is built with its sync and time imports redirected to scheduler shims (cooperative locks; a virtual timer whose firing is a controller transition enabled at every scheduling point while armed); channel operations stay real and quiescence is a stop-the-world goroutine snapshot. Quick: 7 two-thread programs with <=1 preemption, 3 three-thread programs with 0 (81k complete executions); thorough: 28 programs, bounds 0..2. Invariants: callback only on a usable handle or a clean error, one descriptor per shard file, files present during a request, no deadlock, final probe loads every shard. Programs also include a shard whose database file cannot be opened until repaired, and an idle-unload backup that returns an error. One program has a second collection of the same user whose id extends the deleted one's.",
   "timer fires only at quiescent points (cleanup goroutine in its select); Go>=1.23 timer contract; sequentially consistent lock shims",
   "stateless DFS over schedules of the real code under a controlled scheduler with a virtual timer, iterative preemption bounding", "DESIGN.md §4 C12"),
 "C09": (True, "schedx", "model_checking",
   "Stateless preemption-bounded search over the interleavings of two (thorough: three) searcher goroutines and a writer on a real file-backed shard (48 points, shared unlimited cache, cold / partially warm / warm): scheduling points are the searchers' storage operations (storage proxy installed through the verif accessor hook: transaction begin, bucket open, every 8th Get, end), every lock/atomic operation of the real cache manager (import-rewrite overlay) and the writer's transaction begin / function-returned / commit-finished. Quick: 42 programs without preemption, 8 core programs with <=1 (20k complete executions); thorough: all programs <=1, core <=2. Oracle: no storage use after a transaction ended (recorded by the proxy instead of SIGSEGV), no failed search, every returned (id, document) belongs to a committed state that existed during the search, returned documents do not alias ended transactions, final point store/graph = sequential model in commit order, warm = cold answers. Every violating schedule is re-executed twice before it is believed.",
   "the writer's individual storage operations are not scheduling points; one cached index in the schema; map-iteration order inside the code under test makes some prefixes unreplayable (retried, counted, never a verdict) so quick runs are usually not marked exhaustive",
   "stateless DFS over schedules of the real code under a controlled scheduler + storage proxy, iterative preemption bounding", "DESIGN.md §4 C09"),
 "C15": (True, "seqx", "model_checking",
   "(a) exhaustive enumeration of the argument space of the real distributePoints through the verif export hook (0..3 existing shards x fill levels at the limits x batches of 0..6 points of two sizes x count/size limits x shard-creation failure; 567k cases) against the statement (contiguous disjoint covering ranges, no limit exceeded, fresh shards exactly for the overflow) and a greedy reference; (b) breadth-first search, de-duplicated on shard fill levels, to depth 5 (thorough 7) over insert/create/delete request histories on a real node for 4 limit/quota configurations: totals, per-shard maxima, quota refusals without side effects, each stored point found exactly once. Two specs use plans with MaxCollections 0 and 1.",
   "single server; the duplicate-id case is checked through the accounting equation of the statement only (ids unique per collection is the client's obligation)",
   "bounded-exhaustive input enumeration + explicit-state BFS over request histories vs reference", "DESIGN.md §4 C15"),
 "C16": (True, "seqx", "model_checking",
   "Non-interference by lock-step differential execution: breadth-first search to depth 6 (thorough 8), de-duplicated on the complete inventory, over the product alphabet of two users (list; per collection create/get/delete/insert/insert3/update/search/filter-search/delete-point) on one real node through the assembled HTTP handler chain, for 15 user-id pairs (prefixes, key-concatenation collisions, '.', '..', space, percent, backslash, non-ASCII, trailing space, images of one another under name normalisations, escaped '../' collection ids); each user's sub-history runs alone on its own node and every response (status + canonical body) of the shared run must equal the solitary one; the shard-file inventory of the shared node must equal the union of the solitary ones. User-id pairs include glob patterns matching the other id and a pair in which each user has a collection named like the other user's id. Collections carry a flat vector index (node-wide shared cache) with per-user vectors and the alphabet a flat search.",
   "whole requests are the unit of interleaving (node-database writes are serialised by bbolt); user ids without '/'",
   "explicit-state BFS over interleaved two-tenant histories of the real handlers with a differential (non-interference) oracle", "DESIGN.md §4 C16"),
 "C17": (True, "seqx", "model_checking",
   "Every request history up to depth 3 (thorough 4) over {insert 2, insert 3, update existing+unknown, delete existing+unknown, delete all} on real in-process clusters of 1-3 nodes talking RPC over loopback, MaxShardPointCount {1,2}, 3 (thorough 8) placement seeds, each request entering through the next live node in rotation, with all servers up, with each server stopped (connections dropped) from each step on, and with all servers up but every cached RPC connection broken from each step on (verif hook VerifBreakRPCClients; 9.4k histories); plus one deployment with three full shards of 30 points; after every request, through every live node: each id found exactly once iff stored, filter search over limit x offset x sort (<= limit, no duplicates, results are stored points, globally sorted, exact when the limit covers the matches), flat search globally ordered by hybrid score, update/delete failure lists and their message. The alphabet has a step that unloads every shard (what the idle timer does), so that the next request of whatever kind loads its shards; node root and shard root are different directories.",
   "ids unique per collection; nothing claimed when the user's routing node is down; a search may fail as a whole when a shard server is down; offset heuristic not claimed exact",
   "exhaustive enumeration of request histories x deployments x single-server faults on real nodes vs reference model", "DESIGN.md §4 C17"),
 "C14": (True, "faultx", "fault_enumeration",
   "Enumeration of configurations and faults on real in-process nodes (RPC over loopback): all 42 ordered pairs of different non-empty server sets over {A,B,C} x placement seeds x the order in which the nodes run their start-up Sync (permutations and fully concurrent), data created through the old cluster (4 users, two of whose ids are prefixes of the two others; 8 shard files); for every world the receive handler (verif fault hook at the top of RPCSendShard) fails at chunk k of the t-th transfer, optionally followed by truncating the partial destination file to 0 / 1 / size-1 bytes, then all nodes restart and synchronise twice, with the same new server list or with a list that changed once more (back to the old one; thorough: every other list), so that a second move starts from what an interrupted one left; every record a node sends is checked (verif hook at RPCSetNodeKeyValue) not to be a slice of the sender's memory-mapped database; synthetic shard files around multiples of the 8 MiB chunk size with a failure at every chunk index. Oracle: nothing lost after an interrupted run; afterwards every record and shard file on exactly its RendezvousHash owner, byte-identical (xxhash + length), every point readable through every new node.",
   "a killed sender = its Sync returning an error; a killed receiver = the file state after chunk k; RpcRetries 1; real kill -9 inside write(2) replaced by torn-file enumeration",
   "exhaustive enumeration of configurations x fault points (chunk indices, torn files) on the real synchronisation code", "DESIGN.md §4 C14"),
 "C18": (True, "seqx-input", "exploration",
   "Exhaustive enumeration of a bounded request grammar against the assembled HTTP handler chain (v1 + v2 mux, app-header middleware, Recover) of a real node, in worker processes so that a fatal error is attributed to the request in flight: every byte string of length <= 4 (thorough 5) over structural JSON / MessagePack alphabets as body of all 10 body-taking routes; every node of 11 valid base requests deleted or replaced by each of 34 boundary / wrong-type / reserved values (incl. 2^63, 2^63-1, -2^63) in JSON and MessagePack; header and content-type variants, unknown and body-less routes, every v1 route on a v2 collection and vice versa, quota / size / vector-length limits, composites carrying both an _and and an _or list with a schema-violating member, nesting depths 10..10^6. Oracle: never 5xx, never a dead process, certainly-invalid requests get 4xx, any 4xx leaves the digest of all collections and points unchanged (a difference is confirmed by replaying only the refused requests on a fresh node), unmodified base requests succeed.",
   "the input space is infinite: the grammar, its length bound and single-field mutations are the stated bound; huge bodies (memory exhaustion) are not explored",
   "bounded-exhaustive enumeration of request bytes and single-field mutations against the real handlers with crash attribution", "DESIGN.md §4 C18"),
}

props = [json.loads(l) for l in open(os.path.join(HERE, "properties.jsonl"))]
checks, na = [], []
for p in props:
    pid = p["id"]
    c = CHECKS.get(pid)
    if not c or not c[0]:
        na.append({"property_id": pid, "reason": "check not built yet in this session (planned in DESIGN.md §4 %s); no verdict is claimed" % pid})
        continue
    _, engine, cat, text, note, tech, ref = c
    checks.append({
        "property_id": pid,
        "quick_cmd": "./check.sh %s --tier quick" % pid,
        "thorough_cmd": "./check.sh %s --tier thorough" % pid,
        "evidence_file": "/verif/evidence/%s.json" % pid,
        "replay_cmd_template": "./check.sh %s --replay {path}" % pid,
        "engine": engine,
        "level_claimed": {"category": cat, "text": text, "design_ref": ref},
        "level_note": note,
        "technique": tech,
    })
m = {
 "version": 1,
 "setup_cmd": "./setup.sh",
 "hooks": {
  "guard": "verif",
  "enable": "go build -tags verif [-overlay <import-rewrite overlay generated from /repo's working tree>] — done by ./check.sh for every property",
  "baseline_off_cmd": "cd /repo && GOFLAGS=-mod=mod GOPROXY=off go test -json -vet=off -count=1 -timeout 25m ./...",
  "source_commits": hook_commits,
  "add_only": True,
 },
 "engines": [
  {"name": "pool", "path": "engine/pool", "serves_properties": [c["property_id"] for c in checks], "kind_free_text": "worker sub-processes with CPU affinity, crash/hang attribution"},
  {"name": "seqx", "path": "engine/seqx", "serves_properties": [c["property_id"] for c in checks if c["engine"].startswith("seqx")], "kind_free_text": "explicit-state breadth-first search over operation histories of the real code with reference-model oracles; input mode = exhaustive enumeration of finite input families"},
  {"name": "faultx", "path": "engine/faultx", "serves_properties": [c["property_id"] for c in checks if "faultx" in c["engine"]], "kind_free_text": "storage proxy enumerating every fault point / crash image of a write history"},
  {"name": "schedx", "path": "engine/schedx", "serves_properties": [c["property_id"] for c in checks if "schedx" in c["engine"]], "kind_free_text": "stateless preemption-bounded DFS over schedules of real goroutines under a controlled scheduler"},
 ],
 "checks": checks,
 "notes": "All verdicts come from exhaustive enumeration of bounded spaces of executions of the real code (DESIGN.md §0). known_findings.txt lists recorded defects and fixed: entries.",
 "not_applicable": na,
}
json.dump(m, open(os.path.join(HERE, "MANIFEST.json"), "w"), indent=1)
print("checks:", [c["property_id"] for c in checks], "na:", len(na))
