// Package seqx is the explicit-state search over operation histories.
//
// A state is the history that reaches it (live objects cannot be cloned): a
// successor is computed by a worker process that builds a fresh instance of
// the real system, replays the history and applies one more operation.  After
// every new operation the harness' oracle runs (operation result against the
// reference model, then the observation battery).  States are de-duplicated by
// a harness-supplied key (reference-model state + implementation abstraction);
// an empty key switches merging off for that state.
package seqx

import (
	"crypto/sha256"
	"encoding/hex"
	"encoding/json"
	"fmt"
	"strings"

	"semaverif/engine/harness"
	"semaverif/engine/pool"
)

// Viol is a violation reported by a System.
type Viol struct {
	Sig    string `json:"sig"`
	Detail string `json:"detail"`
}

// System is one live instance of the code under test together with its
// reference model.
type System interface {
	// Apply executes one operation on implementation and model and compares
	// the operation's own result.
	Apply(op json.RawMessage) []Viol
	// Check runs the observation battery against the model.
	Check() []Viol
	// Key returns the de-duplication key ("" = never merge this state).
	Key() string
	// Outcome returns a digest of what the battery observed (vacuity counter).
	Outcome() string
	// Checks returns how many individual comparisons the battery made so far.
	Checks() int64
	// Terminal reports that the state must not be expanded further (it is
	// checked, counted, but has no successors in the search).
	Terminal() bool
	Close()
}

// Factory builds a fresh System for a configuration.
type Factory func(cfg json.RawMessage) (System, error)

type wjob struct {
	Spec    int               `json:"spec"`
	Cfg     json.RawMessage   `json:"cfg"`
	History []json.RawMessage `json:"h"`
	Full    bool              `json:"full"` // check after every operation (replay mode)
}

type wres struct {
	Key      string `json:"key"`
	Outcome  string `json:"out"`
	Viols    []Viol `json:"viols"`
	Checks   int64  `json:"checks"`
	Ops      int    `json:"ops"`
	Terminal bool   `json:"terminal"`
}

// Worker returns the pool handler executing seqx jobs with the given factory.
func Worker(f Factory) pool.Handler {
	return func(raw json.RawMessage) (json.RawMessage, error) {
		var j wjob
		if err := json.Unmarshal(raw, &j); err != nil {
			return nil, err
		}
		sys, err := f(j.Cfg)
		if err != nil {
			return nil, fmt.Errorf("factory: %w", err)
		}
		defer sys.Close()
		var res wres
		for i, op := range j.History {
			vs := sys.Apply(op)
			res.Ops++
			last := i == len(j.History)-1
			if last || j.Full {
				res.Viols = append(res.Viols, vs...)
				if len(vs) == 0 {
					res.Viols = append(res.Viols, sys.Check()...)
				}
			}
			if len(res.Viols) > 0 {
				break
			}
		}
		if len(j.History) == 0 {
			res.Viols = append(res.Viols, sys.Check()...)
		}
		if len(res.Viols) == 0 {
			res.Key = sys.Key()
			res.Outcome = sys.Outcome()
		}
		res.Checks = sys.Checks()
		res.Terminal = sys.Terminal()
		return json.Marshal(res)
	}
}

// Spec is one search: a configuration, start states, an alphabet and a depth.
type Spec struct {
	Name     string
	Cfg      any
	Starts   [][]any // start histories; nil = just the empty history
	Alphabet []any
	Depth    int
	Dedup    bool
}

// Replay is the replay artefact of a seqx violation.
type Replay struct {
	Spec    string            `json:"spec"`
	Cfg     json.RawMessage   `json:"cfg"`
	History []json.RawMessage `json:"history"`
}

func raw(v any) json.RawMessage {
	if r, ok := v.(json.RawMessage); ok {
		return r
	}
	b, err := json.Marshal(v)
	if err != nil {
		panic(err)
	}
	return b
}

type node struct {
	spec int
	hist []json.RawMessage
}

// Explore runs the breadth-first search of all specs jointly, level by level.
func Explore(cfg *harness.Config, rep *harness.Report, p *pool.Pool, specs []Spec) {
	cfgs := make([]json.RawMessage, len(specs))
	alpha := make([][]json.RawMessage, len(specs))
	seen := make([]map[string]struct{}, len(specs))
	var frontier []node
	maxDepth := 0
	for i, s := range specs {
		cfgs[i] = raw(s.Cfg)
		for _, a := range s.Alphabet {
			alpha[i] = append(alpha[i], raw(a))
		}
		seen[i] = map[string]struct{}{}
		starts := s.Starts
		if starts == nil {
			starts = [][]any{{}}
		}
		for _, st := range starts {
			var h []json.RawMessage
			for _, o := range st {
				h = append(h, raw(o))
			}
			frontier = append(frontier, node{i, h})
		}
		if s.Depth > maxDepth {
			maxDepth = s.Depth
		}
	}
	violSpecs := map[string]int{}
	perSpecStates := make([]int64, len(specs))
	perSpecTrans := make([]int64, len(specs))
	process := func(level int, cands []node) []node {
		jobs := make(chan json.RawMessage)
		go func() {
			defer close(jobs)
			for _, c := range cands {
				if cfg.Expired() {
					return
				}
				b, _ := json.Marshal(wjob{Spec: c.spec, Cfg: cfgs[c.spec], History: c.hist})
				jobs <- b
			}
		}()
		var next []node
		done := 0
		err := p.Run(jobs, func(r pool.Result) {
			done++
			c := cands[r.Index]
			sp := specs[c.spec]
			rep.Transitions++
			rep.TracesValidated++
			perSpecTrans[c.spec]++
			rp := Replay{Spec: sp.Name, Cfg: cfgs[c.spec], History: c.hist}
			if r.Crashed || r.Hung {
				kind := "crashed"
				if r.Hung {
					kind = "hung"
				}
				rep.Violate(harness.Violation{Sig: "process-" + kind + journalClass(r.Stderr) + ":" + crashSite(r.Stderr), Detail: fmt.Sprintf("worker %s while executing %s: %s", kind, histString(c.hist), tail(HarnessFirst(r.Stderr), 400000)), Replay: rp})
				return
			}
			if r.Err != "" {
				rep.NotExhaustive("harness error: " + r.Err)
				return
			}
			var wr wres
			if err := json.Unmarshal(r.Out, &wr); err != nil {
				rep.NotExhaustive("bad worker result")
				return
			}
			rep.Evaluations += wr.Checks
			if len(wr.Viols) > 0 {
				for _, v := range wr.Viols {
					if violSpecs[v.Sig] < 3 {
						rep.Violate(harness.Violation{Sig: v.Sig, Detail: fmt.Sprintf("[%s] after %s: %s", sp.Name, histString(c.hist), v.Detail), Replay: rp})
					}
					violSpecs[v.Sig]++
				}
				return // do not expand a violating state
			}
			rep.OutcomeHash(wr.Outcome)
			if sp.Dedup && wr.Key != "" {
				if _, dup := seen[c.spec][wr.Key]; dup {
					return
				}
				seen[c.spec][wr.Key] = struct{}{}
			}
			rep.States++
			perSpecStates[c.spec]++
			if rep.States%97 == 1 {
				rep.Sample(map[string]any{"spec": sp.Name, "history": histStrings(c.hist)})
			}
			if wr.Terminal {
				rep.Add("terminal_states_not_expanded", 1)
			} else if level < sp.Depth {
				next = append(next, c)
			}
		})
		if err != nil {
			rep.NotExhaustive("pool: " + err.Error())
		}
		if done < len(cands) {
			rep.NotExhaustive(fmt.Sprintf("internal deadline hit at depth %d after %d of %d transitions of that level; all shallower levels complete", level, done, len(cands)))
		}
		return next
	}
	// level 0: the start states themselves
	frontier = process(0, frontier)
	completed := 0
	for level := 1; level <= maxDepth && len(frontier) > 0; level++ {
		var cands []node
		for _, n := range frontier {
			if level > specs[n.spec].Depth {
				continue
			}
			for _, a := range alpha[n.spec] {
				h := make([]json.RawMessage, len(n.hist)+1)
				copy(h, n.hist)
				h[len(n.hist)] = a
				cands = append(cands, node{n.spec, h})
			}
		}
		if cfg.Expired() {
			rep.NotExhaustive(fmt.Sprintf("internal deadline hit before depth %d", level))
			break
		}
		frontier = process(level, cands)
		if rep.Exhaustive {
			completed = level
		}
	}
	rep.Set("max_depth_completed", completed)
	per := map[string]any{}
	for i, s := range specs {
		per[s.Name] = map[string]any{"states": perSpecStates[i], "transitions": perSpecTrans[i], "depth": s.Depth, "alphabet": len(s.Alphabet), "dedup": s.Dedup}
	}
	rep.Set("specs", per)
	if len(violSpecs) > 0 {
		rep.Set("violation_counts", violSpecs)
	}
}

// ReplayOne re-executes one recorded history, checking after every operation.
func ReplayOne(rep *harness.Report, p *pool.Pool, r Replay) {
	b, _ := json.Marshal(wjob{Cfg: r.Cfg, History: r.History, Full: true})
	results, err := p.RunAll([]json.RawMessage{b})
	if err != nil {
		panic(err)
	}
	res := results[0]
	if res.Crashed || res.Hung {
		rep.Violate(harness.Violation{Sig: "process-crashed:" + crashSite(res.Stderr), Detail: tail(res.Stderr, 400000), Replay: r})
		return
	}
	var wr wres
	json.Unmarshal(res.Out, &wr)
	fmt.Printf("replayed %d operation(s) of %s: %d violation(s) %s\n", wr.Ops, histString(r.History), len(wr.Viols), res.Err)
	for _, v := range wr.Viols {
		rep.Violate(harness.Violation{Sig: v.Sig, Detail: v.Detail, Replay: r})
	}
}

func histStrings(h []json.RawMessage) []string {
	out := make([]string, len(h))
	for i, o := range h {
		var n struct {
			Name string `json:"name"`
		}
		json.Unmarshal(o, &n)
		if n.Name != "" {
			out[i] = n.Name
		} else {
			out[i] = string(o)
		}
	}
	return out
}

func histString(h []json.RawMessage) string {
	return "[" + strings.Join(histStrings(h), " ; ") + "]"
}

func tail(s string, n int) string {
	if len(s) > n {
		return s[len(s)-n:]
	}
	return s
}

// journalClass reads the worker's journal (lines "@@J ..." on stderr) and
// classifies where a crash / hang happened relative to failed batches: the
// known defect class "index goroutines outlive a failed batch" can only show
// after a batch failed.
func journalClass(stderr string) string {
	failedBefore := false
	inRejected := false
	for _, l := range strings.Split(stderr, "\n") {
		switch {
		case strings.HasPrefix(l, "@@J-FAILED"):
			failedBefore = true
			inRejected = false
		case strings.HasPrefix(l, "@@J-OK"):
			inRejected = false
		case strings.HasPrefix(l, "@@J-APPLY"):
			inRejected = strings.Contains(l, "expect-reject")
		}
	}
	switch {
	case inRejected:
		return "-in-rejected-batch"
	case failedBefore:
		return "-after-failed-batch"
	}
	return ""
}

// crashSite extracts a short stable description of where a worker died from
// its stderr (first frame inside the repository after the panic line).
// HarnessFirst reorders a goroutine dump so that the goroutines running harness
// code (package main) come first: they say what the worker was waiting for.
func HarnessFirst(stderr string) string {
	blocks := strings.Split(stderr, "\n\n")
	var first, rest []string
	for _, b := range blocks {
		if strings.HasPrefix(b, "goroutine ") && strings.Contains(b, "\nmain.") {
			first = append(first, b)
		} else {
			rest = append(rest, b)
		}
	}
	if len(first) == 0 {
		return stderr
	}
	// tail() keeps the end: the harness goroutines go last
	return strings.Join(rest, "\n\n") + "\n\n==== goroutines running harness code ====\n\n" + strings.Join(first, "\n\n")
}

func crashSite(stderr string) string {
	lines := strings.Split(stderr, "\n")
	kind := "unknown"
	for i, l := range lines {
		if strings.HasPrefix(l, "panic:") || strings.HasPrefix(l, "fatal error:") || strings.Contains(l, "SIGSEGV") {
			if kind == "unknown" {
				kind = strings.TrimSpace(l)
				if len(kind) > 80 {
					kind = kind[:80]
				}
			}
			for _, m := range lines[i:] {
				m = strings.TrimSpace(m)
				if strings.HasPrefix(m, "github.com/semafind/semadb/") || strings.HasPrefix(m, "go.etcd.io/bbolt") {
					if k := strings.Index(m, "("); k > 0 {
						m = m[:k]
					}
					return kind + " @ " + m
				}
			}
		}
	}
	return kind
}

// Hash is a helper for keys and outcomes.
func Hash(parts ...any) string {
	h := sha256.New()
	for _, p := range parts {
		fmt.Fprintf(h, "%v\x00", p)
	}
	return hex.EncodeToString(h.Sum(nil)[:12])
}
