// Package schedx drives the stateless, deviation-bounded search over
// schedules: every execution is one job for a worker process (the scheduler
// itself lives in the overlaid vsched package inside the worker); the master
// keeps the frontier of choice prefixes.
package schedx

import (
	"encoding/json"
	"fmt"
	"strings"
	"sync"

	"semaverif/engine/harness"
	"semaverif/engine/pool"
)

// Job is one execution request.
type Job struct {
	Program json.RawMessage `json:"program"`
	Prefix  []string        `json:"prefix"`
	Bound   int             `json:"bound"`
	// Subtree: the worker explores the whole subtree below Prefix itself
	// (sequential DFS in-process) instead of returning children.
	Subtree bool `json:"subtree"`
}

// Viol is a violation found in an execution.
type Viol struct {
	Sig     string   `json:"sig"`
	Detail  string   `json:"detail"`
	Choices []string `json:"choices"`
}

// Result is what a worker returns for a job.
type Result struct {
	Executions  int64      `json:"executions"`
	Steps       int64      `json:"steps"`
	Children    [][]string `json:"children,omitempty"`
	Viols       []Viol     `json:"viols,omitempty"`
	Outcomes    []string   `json:"outcomes,omitempty"`
	Diverged    int64      `json:"diverged"`
	Retries     int64      `json:"retries"`
	DivSample   string     `json:"divSample,omitempty"`
	Unconfirmed int64      `json:"unconfirmed"`
	Horizon     int64      `json:"horizon"`
	Unsettled   int64      `json:"unsettled"`
	MaxPreempt  int        `json:"maxPreempt"`
	SampleTrace []string   `json:"sample,omitempty"`
	Capped      bool       `json:"capped"`
}

// Replay is the replay artefact of a schedule violation.
type Replay struct {
	Program json.RawMessage `json:"program"`
	Choices []string        `json:"choices"`
}

// Stats accumulates over program sets.
type Stats struct {
	Programs   int
	Executions int64
	Steps      int64
	Diverged   int64
	Retries    int64
	Horizon    int64
	Unsettled  int64
}

// Explore runs the search for a list of programs.  Each program is explored
// with all executions of at most `bound` preemptions.  splitDepth controls
// parallelism: prefixes shorter than splitDepth are expanded by the master
// (one execution per job), deeper subtrees are handed to a worker whole.
func Explore(cfg *harness.Config, rep *harness.Report, p *pool.Pool, programs []any, bound, splitDepth int, sigSeen map[string]int) Stats {
	var st Stats
	type item struct {
		prog int
		job  Job
	}
	progRaw := make([]json.RawMessage, len(programs))
	for i, pr := range programs {
		b, err := json.Marshal(pr)
		if err != nil {
			panic(err)
		}
		progRaw[i] = b
	}
	var mu sync.Mutex
	queue := []Job{}
	outstanding := 0
	cond := sync.NewCond(&mu)
	for i := range programs {
		queue = append(queue, Job{Program: progRaw[i], Bound: bound, Subtree: splitDepth == 0})
	}
	st.Programs = len(programs)
	jobs := make(chan json.RawMessage)
	inflight := map[int]Job{}
	machineryRetries := map[string]int{}
	idx := 0
	go func() {
		defer close(jobs)
		for {
			mu.Lock()
			for len(queue) == 0 && outstanding > 0 {
				cond.Wait()
			}
			if len(queue) == 0 && outstanding == 0 {
				mu.Unlock()
				return
			}
			if cfg.Expired() {
				n := len(queue)
				queue = nil
				mu.Unlock()
				if n > 0 {
					rep.NotExhaustive(fmt.Sprintf("internal deadline hit with %d schedule subtrees unexplored", n))
				}
				mu.Lock()
				for outstanding > 0 {
					cond.Wait()
				}
				mu.Unlock()
				return
			}
			// FIFO: every program advances evenly, so a deadline cuts all of them
			// at a similar depth instead of starving the first ones
			j := queue[0]
			queue = queue[1:]
			outstanding++
			inflight[idx] = j
			idx++
			mu.Unlock()
			b, _ := json.Marshal(j)
			jobs <- b
		}
	}()
	err := p.Run(jobs, func(r pool.Result) {
		mu.Lock()
		defer func() {
			outstanding--
			cond.Broadcast()
			mu.Unlock()
		}()
		j := inflight[r.Index]
		delete(inflight, r.Index)
		if r.Crashed && strings.Contains(r.Stderr, "runtime.tracebackothers") && strings.Contains(r.Stderr, "vsched.(*Sched).snapshot") {
			// the Go runtime itself faulted while the CONTROLLER took its
			// goroutine snapshot (runtime.Stack(all)): a failure of the machinery,
			// not of the code under test.  Re-run the job; give up on the subtree
			// (never a verdict) if it keeps happening.
			key := string(j.Program) + "|" + strings.Join(j.Prefix, " ")
			machineryRetries[key]++
			rep.Add("machinery_crashes_in_runtime_stack", 1)
			if machineryRetries[key] <= 3 {
				queue = append(queue, j)
			} else {
				rep.NotExhaustive("a schedule subtree was dropped after runtime.Stack crashed the worker 4 times")
			}
			return
		}
		if r.Crashed || r.Hung {
			kind := "crashed"
			if r.Hung {
				kind = "hung"
			}
			rep.Violate(harness.Violation{Sig: "process-" + kind + "-under-scheduler", Detail: fmt.Sprintf("worker %s while executing prefix %v: %s", kind, j.Prefix, tail(r.Stderr, 600000)), Replay: Replay{Program: j.Program, Choices: j.Prefix}})
			return
		}
		if r.Err != "" {
			rep.NotExhaustive("harness error: " + r.Err)
			return
		}
		var res Result
		if err := json.Unmarshal(r.Out, &res); err != nil {
			rep.NotExhaustive("bad worker result")
			return
		}
		st.Executions += res.Executions
		st.Steps += res.Steps
		st.Diverged += res.Diverged
		st.Retries += res.Retries
		if res.Unconfirmed > 0 {
			rep.Add("violations_not_reproduced_on_replay", res.Unconfirmed)
		}
		if res.DivSample != "" {
			rep.Set("divergence_sample", res.DivSample)
		}
		st.Horizon += res.Horizon
		st.Unsettled += res.Unsettled
		rep.Transitions += res.Steps
		rep.TracesValidated += res.Executions
		rep.Evaluations += res.Executions
		if res.Capped {
			rep.NotExhaustive("per-subtree execution cap hit")
		}
		for _, o := range res.Outcomes {
			rep.OutcomeHash(o)
		}
		for _, v := range res.Viols {
			if sigSeen[v.Sig] < 3 {
				rep.Violate(harness.Violation{Sig: v.Sig, Detail: v.Detail + " | schedule: " + strings.Join(v.Choices, " "), Replay: Replay{Program: j.Program, Choices: v.Choices}})
			}
			sigSeen[v.Sig]++
		}
		if res.SampleTrace != nil && st.Executions%499 < res.Executions {
			rep.Sample(map[string]any{"program": json.RawMessage(j.Program), "schedule": res.SampleTrace})
		}
		for _, c := range res.Children {
			queue = append(queue, Job{Program: j.Program, Prefix: c, Bound: j.Bound, Subtree: len(c) >= splitDepth})
		}
	})
	if err != nil {
		rep.NotExhaustive("pool: " + err.Error())
	}
	return st
}

func tail(s string, n int) string {
	if len(s) > n {
		return s[len(s)-n:]
	}
	return s
}
