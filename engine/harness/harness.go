// Package harness is the common command-line frame of every property check:
// tier/seed/replay handling, evidence file, known-findings matching, the
// VIOLATION / KNOWN-FINDING lines and the exit status.
package harness

import (
	"bufio"
	"crypto/sha256"
	"encoding/hex"
	"encoding/json"
	"flag"
	"fmt"
	"os"
	"path/filepath"
	"regexp"
	"sort"
	"strconv"
	"strings"
	"sync"
	"time"

	"github.com/rs/zerolog"
	"semaverif/engine/pool"
)

// Violation is one property violation found by a check.
type Violation struct {
	Sig    string `json:"sig"`    // stable signature: what fails, identified by input / call site / history class
	Detail string `json:"detail"` // human readable specifics
	Replay any    `json:"replay"` // everything needed to re-run exactly this case
}

// Config is what a master function gets.
type Config struct {
	Property string
	Tier     string // quick | thorough
	Seed     int64
	Replay   string // path of a replay file, "" when exploring
	Start    time.Time
	Deadline time.Time // internal deadline; hitting it means exhaustive=false, never a failure
	Dir      string    // /verif (known_findings.txt lives here)
	Out      string    // where evidence/ and replays/ are written (VERIF_OUT, default Dir)
	Extra    map[string]string
	// NoEvidence: an auxiliary pass (e.g. the race pass) that must not rewrite the evidence file
	NoEvidence bool
}

// Quick reports whether the quick tier runs.
func (c *Config) Quick() bool { return c.Tier != "thorough" }

// Expired reports whether the internal deadline has passed.
func (c *Config) Expired() bool { return time.Now().After(c.Deadline) }

// Report accumulates what a run covered.
type Report struct {
	mu sync.Mutex

	Level string // evidence level

	Evaluations        int64
	DistinctNontrivial int64
	Rule               string
	Samples            []any
	States             int64
	Transitions        int64
	TracesValidated    int64
	Exhaustive         bool
	Explanation        string
	Extra              map[string]any
	Assumptions        []string
	Violations         []Violation
	outcomes           map[string]struct{}
	maxSamples         int
}

// NewReport creates an empty report.
func NewReport(level string) *Report {
	return &Report{Level: level, Exhaustive: true, Extra: map[string]any{}, outcomes: map[string]struct{}{}, maxSamples: 6}
}

// Outcome records one observed outcome (for the distinct-outcome vacuity counter).
func (r *Report) Outcome(s string) {
	h := sha256.Sum256([]byte(s))
	r.mu.Lock()
	r.outcomes[string(h[:8])] = struct{}{}
	r.mu.Unlock()
}

// OutcomeHash records an already hashed outcome.
func (r *Report) OutcomeHash(h string) {
	r.mu.Lock()
	r.outcomes[h] = struct{}{}
	r.mu.Unlock()
}

// OutcomeCount returns the number of distinct outcomes recorded so far.
func (r *Report) OutcomeCount() int {
	r.mu.Lock()
	defer r.mu.Unlock()
	return len(r.outcomes)
}

// Sample keeps a few of the explored cases for the evidence file.
func (r *Report) Sample(v any) {
	r.mu.Lock()
	if len(r.Samples) < r.maxSamples {
		r.Samples = append(r.Samples, v)
	}
	r.mu.Unlock()
}

// Violate records a violation.
func (r *Report) Violate(v Violation) {
	r.mu.Lock()
	r.Violations = append(r.Violations, v)
	r.mu.Unlock()
}

// NotExhaustive marks the run as capped and says why.
func (r *Report) NotExhaustive(why string) {
	r.mu.Lock()
	r.Exhaustive = false
	caps, _ := r.Extra["caps_hit"].([]string)
	for _, c := range caps {
		if c == why {
			r.mu.Unlock()
			return
		}
	}
	r.Extra["caps_hit"] = append(caps, why)
	r.mu.Unlock()
}

// Add adds to a named extra counter.
func (r *Report) Add(name string, n int64) {
	r.mu.Lock()
	v, _ := r.Extra[name].(int64)
	r.Extra[name] = v + n
	r.mu.Unlock()
}

// Set sets a named extra value.
func (r *Report) Set(name string, v any) {
	r.mu.Lock()
	r.Extra[name] = v
	r.mu.Unlock()
}

// ---------------------------------------------------------------------------

type finding struct {
	Property string
	ID       string
	Re       *regexp.Regexp
	Text     string
}

func loadFindings(dir string) ([]finding, error) {
	f, err := os.Open(filepath.Join(dir, "known_findings.txt"))
	if err != nil {
		if os.IsNotExist(err) {
			return nil, nil
		}
		return nil, err
	}
	defer f.Close()
	re := regexp.MustCompile(`^finding: property=(\S+) id=(\S+) match=/(.*)/ (.*)$`)
	var out []finding
	sc := bufio.NewScanner(f)
	sc.Buffer(make([]byte, 1<<20), 1<<20)
	for sc.Scan() {
		line := strings.TrimSpace(sc.Text())
		m := re.FindStringSubmatch(line)
		if m == nil {
			continue // comments and "fixed:" records suppress nothing
		}
		rx, err := regexp.Compile(m[3])
		if err != nil {
			return nil, fmt.Errorf("known_findings.txt: bad regexp %q: %w", m[3], err)
		}
		out = append(out, finding{Property: m[1], ID: m[2], Re: rx, Text: m[4]})
	}
	return out, sc.Err()
}

// Main is the entry point of every harness binary.
func Main(property string, worker pool.Handler, master func(cfg *Config, rep *Report), level string) {
	zerolog.SetGlobalLevel(zerolog.Disabled)
	if pool.IsWorker() {
		pool.ServeWorker(worker)
		return
	}
	tier := flag.String("tier", envOr("VERIF_TIER", "quick"), "quick|thorough")
	replay := flag.String("replay", "", "replay file")
	budget := flag.Duration("budget", 0, "override the internal time budget")
	var extras multiFlag
	flag.Var(&extras, "x", "extra key=value for the harness")
	flag.Parse()
	seed, _ := strconv.ParseInt(envOr("VERIF_SEED", "0"), 10, 64)
	dir := envOr("VERIF_DIR", "")
	if dir == "" {
		dir, _ = os.Getwd()
	}
	cfg := &Config{Property: property, Tier: *tier, Seed: seed, Replay: *replay, Start: time.Now(), Dir: dir, Out: envOr("VERIF_OUT", dir), Extra: map[string]string{}}
	for _, e := range extras {
		if k, v, ok := strings.Cut(e, "="); ok {
			cfg.Extra[k] = v
		}
	}
	b := 150 * time.Second
	if cfg.Tier == "thorough" {
		b = 25 * time.Minute
	}
	if *budget > 0 {
		b = *budget
	}
	cfg.Deadline = cfg.Start.Add(b)
	rep := NewReport(level)
	master(cfg, rep)
	os.Exit(finish(cfg, rep))
}

type multiFlag []string

func (m *multiFlag) String() string     { return strings.Join(*m, ",") }
func (m *multiFlag) Set(s string) error { *m = append(*m, s); return nil }

func envOr(k, d string) string {
	if v := os.Getenv(k); v != "" {
		return v
	}
	return d
}

func finish(cfg *Config, rep *Report) int {
	findings, err := loadFindings(cfg.Dir)
	if err != nil {
		fmt.Fprintln(os.Stderr, "cannot read known findings:", err)
		return 2
	}
	// group violations by signature: one line per distinct signature
	bySig := map[string][]Violation{}
	var order []string
	for _, v := range rep.Violations {
		if _, ok := bySig[v.Sig]; !ok {
			order = append(order, v.Sig)
		}
		bySig[v.Sig] = append(bySig[v.Sig], v)
	}
	sort.Strings(order)
	exit := 0
	known := 0
	var knownLines []string
	type knownHit struct {
		f       *finding
		sigs    int
		cases   int
		example string
	}
	knownAgg := map[string]*knownHit{}
	var knownOrder []string
	os.MkdirAll(filepath.Join(cfg.Out, "replays"), 0o755)
	for _, sig := range order {
		vs := bySig[sig]
		var hit *finding
		for i := range findings {
			if propListed(findings[i].Property, cfg.Property) && findings[i].Re.MatchString(sig) {
				hit = &findings[i]
				break
			}
		}
		if hit != nil {
			known++
			kf := knownAgg[hit.ID]
			if kf == nil {
				kf = &knownHit{f: hit, example: vs[0].Detail}
				knownAgg[hit.ID] = kf
				knownOrder = append(knownOrder, hit.ID)
			}
			kf.sigs++
			kf.cases += len(vs)
			continue
		}
		exit = 1
		h := sha256.Sum256([]byte(sig))
		name := fmt.Sprintf("%s-%s.json", cfg.Property, hex.EncodeToString(h[:5]))
		path := filepath.Join(cfg.Out, "replays", name)
		b, _ := json.MarshalIndent(map[string]any{"property": cfg.Property, "sig": sig, "detail": vs[0].Detail, "cases": len(vs), "replay": vs[0].Replay}, "", " ")
		os.WriteFile(path, b, 0o644)
		fmt.Printf("VIOLATION property=%s replay=%s\n", cfg.Property, path)
		fmt.Printf("  sig: %s\n  detail: %s\n  cases: %d\n", sig, oneLine(vs[0].Detail, 1500), len(vs))
	}
	for _, id := range knownOrder {
		kf := knownAgg[id]
		line := fmt.Sprintf("KNOWN-FINDING: property=%s %s [%s] (%d case(s), %d signature variant(s); e.g. %s)", cfg.Property, kf.f.Text, kf.f.ID, kf.cases, kf.sigs, oneLine(kf.example, 300))
		knownLines = append(knownLines, line)
		fmt.Println(line)
	}
	if cfg.Replay != "" || cfg.NoEvidence {
		// a replay run / auxiliary pass reports but does not rewrite the evidence
		return exit
	}
	// evidence
	cov := map[string]any{}
	for k, v := range rep.Extra {
		cov[k] = v
	}
	if rep.DistinctNontrivial == 0 {
		// engines that do not maintain their own counter: the distinct observed
		// outcomes are the measured number of distinct non-trivial cases
		rep.DistinctNontrivial = int64(len(rep.outcomes))
	}
	if rep.Evaluations == 0 {
		rep.Evaluations = rep.Transitions
	}
	cov["evaluations"] = rep.Evaluations
	cov["distinct_nontrivial"] = rep.DistinctNontrivial
	cov["rule"] = rep.Rule
	if len(rep.Samples) == 0 {
		rep.Samples = []any{"(no sample recorded)"}
	}
	cov["samples"] = rep.Samples
	if rep.Level == "model_checking" && rep.States > 0 && rep.Transitions > 0 {
		cov["states"] = rep.States
		cov["transitions"] = rep.Transitions
		cov["traces_validated_against_impl"] = rep.TracesValidated
	}
	cov["distinct_outcomes"] = len(rep.outcomes)
	cov["exhaustive"] = rep.Exhaustive
	if rep.Explanation != "" {
		cov["explanation"] = rep.Explanation
	}
	cov["known_findings_reported"] = knownLines
	ev := map[string]any{
		"property_id": cfg.Property,
		"tier":        cfg.Tier,
		"seed":        cfg.Seed,
		"level":       rep.Level,
		"coverage":    cov,
		"assumptions": rep.Assumptions,
		"wall_s":      time.Since(cfg.Start).Seconds(),
		"violations":  len(order) - known,
	}
	if rep.Assumptions == nil {
		ev["assumptions"] = []string{}
	}
	os.MkdirAll(filepath.Join(cfg.Out, "evidence"), 0o755)
	b, _ := json.MarshalIndent(ev, "", " ")
	if err := os.WriteFile(filepath.Join(cfg.Out, "evidence", cfg.Property+".json"), append(b, '\n'), 0o644); err != nil {
		fmt.Fprintln(os.Stderr, "cannot write evidence:", err)
		return 2
	}
	fmt.Printf("%s tier=%s evaluations=%d states=%d transitions=%d distinct_outcomes=%d exhaustive=%v violations=%d known=%d wall=%.1fs\n",
		cfg.Property, cfg.Tier, rep.Evaluations, rep.States, rep.Transitions, len(rep.outcomes), rep.Exhaustive, len(order)-known, known, time.Since(cfg.Start).Seconds())
	return exit
}

// propListed reports whether id is in the comma-separated list.
func propListed(list, id string) bool {
	for _, p := range strings.Split(list, ",") {
		if p == id {
			return true
		}
	}
	return false
}

func oneLine(s string, n int) string {
	s = strings.Join(strings.Fields(s), " ")
	if len(s) > n {
		s = s[:n] + "…"
	}
	return s
}

// LoadReplay reads the "replay" member of a replay file into v.
func LoadReplay(path string, v any) error {
	b, err := os.ReadFile(path)
	if err != nil {
		return err
	}
	var env struct {
		Replay json.RawMessage `json:"replay"`
	}
	if err := json.Unmarshal(b, &env); err != nil {
		return err
	}
	return json.Unmarshal(env.Replay, v)
}
