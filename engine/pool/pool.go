// Package pool runs work items in worker sub-processes of the current binary.
//
// The code under test can crash the process (SIGSEGV inside bbolt, fatal
// stack overflow) or hang (a poisoned lock).  The explorer therefore never
// runs it in its own process: the parent keeps the enumeration, workers
// execute single jobs, and the parent knows from the job it handed out which
// case was in flight when a worker died.
package pool

import (
	"bufio"
	"bytes"
	"encoding/json"
	"fmt"
	"io"
	"os"
	"os/exec"
	"runtime"
	"strconv"
	"strings"
	"sync"
	"syscall"
	"time"
	"unsafe"
)

const resultPrefix = "@@R "

// Handler executes one job inside a worker process.
type Handler func(job json.RawMessage) (json.RawMessage, error)

// Result of one job as seen by the parent.
type Result struct {
	Index   int
	Job     json.RawMessage
	Out     json.RawMessage
	Err     string // handler returned an error (harness problem, not a verdict)
	Crashed bool   // worker process died while running the job
	Hung    bool   // worker exceeded the job deadline and was killed
	Stderr  string // tail of the worker's stderr for crashed / hung jobs
}

// IsWorker reports whether this process was started as a pool worker.
func IsWorker() bool { return os.Getenv("SEMAVERIF_WORKER") != "" }

// InNetNS reports whether this worker process runs in a network namespace of its own.
func InNetNS() bool { return os.Getenv("SEMAVERIF_NETNS") == "1" }

var netnsProbe struct {
	once sync.Once
	ok   bool
}

// netnsAvailable: can this process create network namespaces?
func netnsAvailable() bool {
	netnsProbe.once.Do(func() {
		cmd := exec.Command("true")
		cmd.SysProcAttr = &syscall.SysProcAttr{Cloneflags: syscall.CLONE_NEWNET}
		netnsProbe.ok = cmd.Run() == nil
	})
	return netnsProbe.ok
}

// loopbackUp brings the loopback interface of a fresh network namespace up (ioctl SIOCSIFFLAGS).
func loopbackUp() {
	fd, err := syscall.Socket(syscall.AF_INET, syscall.SOCK_DGRAM, 0)
	if err != nil {
		return
	}
	defer syscall.Close(fd)
	var ifr [40]byte // struct ifreq: name[16] + union
	copy(ifr[:], "lo")
	if _, _, e := syscall.Syscall(syscall.SYS_IOCTL, uintptr(fd), syscall.SIOCGIFFLAGS, uintptr(unsafe.Pointer(&ifr[0]))); e != 0 {
		return
	}
	flags := uint16(ifr[16]) | uint16(ifr[17])<<8
	flags |= syscall.IFF_UP | syscall.IFF_RUNNING
	ifr[16], ifr[17] = byte(flags), byte(flags>>8)
	syscall.Syscall(syscall.SYS_IOCTL, uintptr(fd), syscall.SIOCSIFFLAGS, uintptr(unsafe.Pointer(&ifr[0])))
}

var recycle bool

// RequestRecycle asks the parent (from inside a handler) to replace this
// worker process after the current job: the way to get rid of goroutines the
// code under test leaked.
func RequestRecycle() { recycle = true }

// ServeWorker is the worker main loop: read one job per line from stdin,
// answer on stdout.
func ServeWorker(h Handler) {
	if InNetNS() {
		loopbackUp()
	}
	in := bufio.NewReaderSize(os.Stdin, 1<<20)
	out := bufio.NewWriterSize(os.Stdout, 1<<20)
	for {
		line, err := readLine(in)
		if err != nil {
			return
		}
		var env struct {
			Res     json.RawMessage `json:"res,omitempty"`
			Err     string          `json:"err,omitempty"`
			Recycle bool            `json:"recycle,omitempty"`
		}
		res, herr := h(json.RawMessage(line))
		env.Recycle = recycle
		if herr != nil {
			env.Err = herr.Error()
		}
		env.Res = res
		b, _ := json.Marshal(env)
		out.WriteString(resultPrefix)
		out.Write(b)
		out.WriteByte('\n')
		out.Flush()
		if recycle {
			os.Exit(0)
		}
	}
}

func readLine(r *bufio.Reader) ([]byte, error) {
	var buf []byte
	for {
		part, isPrefix, err := r.ReadLine()
		if err != nil {
			return nil, err
		}
		buf = append(buf, part...)
		if !isPrefix {
			return buf, nil
		}
	}
}

// Options configure a pool.
type Options struct {
	Workers       int           // 0 = as many as the CPU budget allows
	CPUsPerWorker int           // CPU affinity width per worker (2 => one semadb insert worker)
	JobTimeout    time.Duration // 0 = 120s
	ExtraEnv      []string
	MemLimitKB    int64 // ulimit -v per worker, 0 = 24 GiB
	Args          []string
	// NetNS: start every worker in a network namespace of its own (loopback only), so that all
	// workers can listen on the same fixed loopback ports: server names that contain a port - and
	// everything hashed from them - are then the same in every worker and in a replay.  Falls
	// back to the shared namespace when the kernel refuses (InNetNS reports what a worker got).
	NetNS bool
}

type worker struct {
	cmd      *exec.Cmd
	stdin    io.WriteCloser
	stdout   *bufio.Reader
	stderr   *tailBuf
	cpus     string
	recycled bool
}

type tailBuf struct {
	mu     sync.Mutex
	buf    []byte
	pinned bool // keep everything from the pin on (a goroutine dump is read from its head)
}

// Pin drops what was written so far and stops trimming (up to 32 MiB).
func (t *tailBuf) Pin() {
	t.mu.Lock()
	defer t.mu.Unlock()
	if len(t.buf) > 1<<16 {
		t.buf = append([]byte(nil), t.buf[len(t.buf)-(1<<16):]...)
	}
	t.pinned = true
}

func (t *tailBuf) Write(p []byte) (int, error) {
	t.mu.Lock()
	defer t.mu.Unlock()
	if t.pinned {
		if len(t.buf) < 32<<20 {
			t.buf = append(t.buf, p...)
		}
		return len(p), nil
	}
	t.buf = append(t.buf, p...)
	if len(t.buf) > 1<<20 {
		t.buf = t.buf[len(t.buf)-(1<<19):]
	}
	return len(p), nil
}
func (t *tailBuf) String() string {
	t.mu.Lock()
	defer t.mu.Unlock()
	return string(t.buf)
}

// Pool is a set of worker processes.
type Pool struct {
	opt   Options
	slots []string // cpu list per worker
}

func allowedCPUs() []int {
	var mask [128]uint64
	_, _, e := syscall.RawSyscall(syscall.SYS_SCHED_GETAFFINITY, 0, uintptr(len(mask)*8), uintptr(unsafe.Pointer(&mask[0])))
	var cpus []int
	if e == 0 {
		for i := range mask {
			for b := 0; b < 64; b++ {
				if mask[i]&(1<<uint(b)) != 0 {
					cpus = append(cpus, i*64+b)
				}
			}
		}
	}
	if len(cpus) == 0 {
		for i := 0; i < runtime.NumCPU(); i++ {
			cpus = append(cpus, i)
		}
	}
	return cpus
}

// New creates a pool description; processes are started by Run.
func New(opt Options) *Pool {
	if opt.CPUsPerWorker <= 0 {
		opt.CPUsPerWorker = 2
	}
	if opt.JobTimeout == 0 {
		opt.JobTimeout = 120 * time.Second
	}
	if v := os.Getenv("VERIF_JOB_TIMEOUT"); v != "" {
		if k, err := strconv.Atoi(v); err == nil && k > 0 {
			opt.JobTimeout = time.Duration(k) * time.Second
		}
	}
	if opt.MemLimitKB == 0 {
		opt.MemLimitKB = 24 << 20
	}
	cpus := allowedCPUs()
	if n := os.Getenv("VERIF_PROCS"); n != "" {
		if k, err := strconv.Atoi(n); err == nil && k > 0 && k < len(cpus) {
			cpus = cpus[:k]
		}
	}
	var slots []string
	if len(cpus) < opt.CPUsPerWorker {
		// Not enough CPUs for the requested width: share what there is. The
		// width matters (NumCPU()-1 insert workers must be >= 1), so reuse CPUs.
		var s []string
		for i := 0; i < opt.CPUsPerWorker; i++ {
			s = append(s, strconv.Itoa(cpus[i%len(cpus)]))
		}
		slots = append(slots, strings.Join(s, ","))
	}
	for i := 0; i+opt.CPUsPerWorker <= len(cpus); i += opt.CPUsPerWorker {
		var s []string
		for _, c := range cpus[i : i+opt.CPUsPerWorker] {
			s = append(s, strconv.Itoa(c))
		}
		slots = append(slots, strings.Join(s, ","))
	}
	if opt.Workers > 0 && opt.Workers < len(slots) {
		slots = slots[:opt.Workers]
	}
	return &Pool{opt: opt, slots: slots}
}

// NetNS reports whether the workers of this pool run in network namespaces of their own.
func (p *Pool) NetNS() bool { return p.opt.NetNS && netnsAvailable() }

// Workers returns the number of worker processes the pool uses.
func (p *Pool) Workers() int { return len(p.slots) }

func (p *Pool) start(cpus string) (*worker, error) {
	self, err := os.Executable()
	if err != nil {
		return nil, err
	}
	args := append([]string{"-c", cpus, self}, p.opt.Args...)
	cmd := exec.Command("taskset", args...)
	cmd.Env = append(os.Environ(), "SEMAVERIF_WORKER=1")
	cmd.Env = append(cmd.Env, p.opt.ExtraEnv...)
	cmd.SysProcAttr = &syscall.SysProcAttr{Pdeathsig: syscall.SIGKILL}
	if p.opt.NetNS && netnsAvailable() {
		cmd.SysProcAttr.Cloneflags = syscall.CLONE_NEWNET
		cmd.Env = append(cmd.Env, "SEMAVERIF_NETNS=1")
	}
	stdin, err := cmd.StdinPipe()
	if err != nil {
		return nil, err
	}
	stdout, err := cmd.StdoutPipe()
	if err != nil {
		return nil, err
	}
	tb := &tailBuf{}
	cmd.Stderr = tb
	if err := cmd.Start(); err != nil {
		return nil, err
	}
	// address-space limit: a runaway allocation must kill the worker, not the box
	lim := syscall.Rlimit{Cur: uint64(p.opt.MemLimitKB) * 1024, Max: uint64(p.opt.MemLimitKB) * 1024}
	prlimit(cmd.Process.Pid, syscall.RLIMIT_AS, &lim)
	return &worker{cmd: cmd, stdin: stdin, stdout: bufio.NewReaderSize(stdout, 1<<20), stderr: tb, cpus: cpus}, nil
}

func prlimit(pid int, resource int, lim *syscall.Rlimit) {
	syscall.RawSyscall6(syscall.SYS_PRLIMIT64, uintptr(pid), uintptr(resource), uintptr(unsafe.Pointer(lim)), 0, 0, 0)
}

func (w *worker) kill() {
	if w.cmd.Process != nil {
		w.cmd.Process.Kill()
	}
	w.stdin.Close()
	w.cmd.Wait()
}

func (w *worker) do(job json.RawMessage, timeout time.Duration) (out json.RawMessage, herr string, crashed, hung bool) {
	w.recycled = false
	line := bytes.ReplaceAll(job, []byte("\n"), []byte(" "))
	if _, err := w.stdin.Write(append(line, '\n')); err != nil {
		return nil, "", true, false
	}
	type rd struct {
		b   []byte
		err error
	}
	ch := make(chan rd, 1)
	go func() {
		for {
			b, err := readLine(w.stdout)
			if err != nil {
				ch <- rd{nil, err}
				return
			}
			if bytes.HasPrefix(b, []byte(resultPrefix)) {
				ch <- rd{b[len(resultPrefix):], nil}
				return
			}
			// stray stdout of the code under test: ignore
		}
	}()
	select {
	case r := <-ch:
		if r.err != nil {
			return nil, "", true, false
		}
		var env struct {
			Res     json.RawMessage `json:"res"`
			Err     string          `json:"err"`
			Recycle bool            `json:"recycle"`
		}
		if err := json.Unmarshal(r.b, &env); err != nil {
			return nil, "bad worker answer: " + err.Error(), false, false
		}
		w.recycled = env.Recycle
		return env.Res, env.Err, false, false
	case <-time.After(timeout):
		// ask for a goroutine dump before killing, it explains the hang
		w.stderr.Pin()
		w.cmd.Process.Signal(syscall.SIGQUIT)
		time.Sleep(time.Second)
		return nil, "", false, true
	}
}

// Run feeds jobs to the workers and calls onResult (serialised) for each
// finished job.  jobs is closed by the caller when the enumeration is done.
func (p *Pool) Run(jobs <-chan json.RawMessage, onResult func(Result)) error {
	type item struct {
		idx int
		job json.RawMessage
	}
	items := make(chan item)
	go func() {
		i := 0
		for j := range jobs {
			items <- item{i, j}
			i++
		}
		close(items)
	}()
	var mu sync.Mutex
	var wg sync.WaitGroup
	var firstErr error
	for _, cpus := range p.slots {
		wg.Add(1)
		go func(cpus string) {
			defer wg.Done()
			var w *worker
			defer func() {
				if w != nil {
					w.kill()
				}
			}()
			for it := range items {
				if w == nil {
					var err error
					w, err = p.start(cpus)
					if err != nil {
						mu.Lock()
						if firstErr == nil {
							firstErr = fmt.Errorf("start worker: %w", err)
						}
						mu.Unlock()
						// drain so the producer does not block
						for range items {
						}
						return
					}
				}
				out, herr, crashed, hung := w.do(it.job, p.opt.JobTimeout)
				res := Result{Index: it.idx, Job: it.job, Out: out, Err: herr, Crashed: crashed, Hung: hung}
				if crashed || hung {
					w.kill()
					res.Stderr = w.stderr.String()
					w = nil
				} else if w.recycled {
					w.kill()
					w = nil
				}
				mu.Lock()
				onResult(res)
				mu.Unlock()
			}
		}(cpus)
	}
	wg.Wait()
	return firstErr
}

// RunAll is a convenience wrapper for a fixed slice of jobs; results are
// returned in job order.
func (p *Pool) RunAll(jobs []json.RawMessage) ([]Result, error) {
	ch := make(chan json.RawMessage)
	go func() {
		for _, j := range jobs {
			ch <- j
		}
		close(ch)
	}()
	out := make([]Result, len(jobs))
	err := p.Run(ch, func(r Result) { out[r.Index] = r })
	return out, err
}
