// Package faultx is the storage proxy: a diskstore.DiskStore wrapper that
// sees every storage operation of the code under test.  It can count
// operations, fail the k-th operation of a (bucket, kind), take a crash image
// of the database file at any operation, hand control to a scheduler before an
// operation, and it refuses — and records — every operation that arrives on a
// transaction that has already ended (forwarding those to bbolt is undefined
// behaviour: a SIGSEGV on the pinned tree).
package faultx

import (
	"errors"
	"fmt"
	"io"
	"os"
	"runtime"
	"sort"
	"strings"
	"sync"
	"sync/atomic"
	"unsafe"

	"github.com/semafind/semadb/diskstore"
)

// ErrInjected is the error returned by an injected fault.
var ErrInjected = errors.New("faultx: injected storage fault")

// ErrTxEnded is returned for operations on an ended transaction.
var ErrTxEnded = errors.New("faultx: storage used after its transaction ended")

// Kinds of storage operations.
const (
	KGet    = "Get"
	KPut    = "Put"
	KDelete = "Delete"
	KEach   = "ForEach"
	KScan   = "Scan"
	KOpen   = "BucketOpen"
	KBegin  = "TxBegin"
	KReturn = "TxCallbackReturned" // the transaction function returned; commit/rollback not yet done
	KEnd    = "TxEnd"              // commit / rollback finished
)

// Fault says which operation to affect and how.
type Fault struct {
	Tx      int    `json:"tx"`      // ordinal of the transaction (1-based, counted from Arm); 0 = any
	Bucket  string `json:"bucket"`  // bucket name; "" = any
	Kind    string `json:"kind"`    // operation kind
	Ordinal int    `json:"ordinal"` // k-th operation of (bucket, kind) within the transaction, 1-based
	Action  string `json:"action"`  // fail | snapshot | panic
}

// ErrPanicInjected is the value of the panic raised by a fault with action "panic".
var ErrPanicInjected = errors.New("faultx: injected panic")

func (f Fault) String() string {
	return fmt.Sprintf("%s %s#%d on %q in tx %d", f.Action, f.Kind, f.Ordinal, f.Bucket, f.Tx)
}

// LateUse is an operation that arrived after its transaction had ended.
type LateUse struct {
	Bucket   string
	Kind     string
	Writable bool
	Site     string // first frames inside the repository
}

// Point is passed to the scheduling hook.
type Point struct {
	TxID     int
	Writable bool
	Bucket   string
	Kind     string
	Ordinal  int
	Failed   bool // at TxEnd: the transaction rolled back
}

type txState struct {
	id       int
	writable bool
	ended    atomic.Bool
	inflight atomic.Int64
	counts   map[string]int // bucket|kind -> count
	mu       sync.Mutex
	owner    int64    // goroutine that called Read/Write
	handed   [][]byte // copies handed out under Poison
}

// goid returns the id of the calling goroutine.
func goid() int64 {
	var buf [64]byte
	n := runtime.Stack(buf[:], false)
	// "goroutine 123 [running]:"
	var id int64
	for _, c := range buf[len("goroutine "):n] {
		if c < '0' || c > '9' {
			break
		}
		id = id*10 + int64(c-'0')
	}
	return id
}

// Proxy wraps a DiskStore.
type Proxy struct {
	inner diskstore.DiskStore

	mu        sync.Mutex
	txSeq     int
	fault     *Fault
	fired     bool
	firedSite string // the repository frames that issued the operation the fault hit
	snapPath  string
	snapTaken []string
	late      []LateUse
	counts    map[string]int // totals since Arm: "tx|bucket|kind"
	perTx     []map[string]int
	armed     bool
	snapAll   bool
	snapLabel []string

	// TrackValues: remember the memory ranges of the values handed out by Get
	// in read-only transactions, so that a harness can tell (without touching
	// the memory) whether something it was given still points into a
	// transaction that has ended.
	TrackValues bool
	liveRanges  map[int][][2]uintptr
	deadRanges  [][2]uintptr

	// Poison: every key and value the store hands out (Get, ForEach, scans) is a private copy that
	// is overwritten with 0xA5 when its transaction ends - what bbolt's contract allows to happen to
	// the real thing ("valid for the life of the transaction"), made certain.  Code that keeps such
	// a slice beyond its transaction then reads poison instead of, by luck, the old bytes.
	Poison bool

	// Hook, when set, is called before every operation (scheduling point).
	Hook func(Point)
}

// Wrap creates a proxy around a store.
func Wrap(inner diskstore.DiskStore) *Proxy {
	return &Proxy{inner: inner, counts: map[string]int{}}
}

// Inner returns the wrapped store.
func (p *Proxy) Inner() diskstore.DiskStore { return p.inner }

// Arm resets counters and installs a fault (nil = count only).  snapPath is the
// file snapshots are written to (suffix added per snapshot).
func (p *Proxy) Arm(f *Fault, snapPath string) {
	p.mu.Lock()
	defer p.mu.Unlock()
	p.txSeq = 0
	p.fault = f
	p.fired = false
	p.firedSite = ""
	p.snapPath = snapPath
	p.snapTaken = nil
	p.counts = map[string]int{}
	p.perTx = nil
	p.armed = true
	p.snapAll = false
}

// ArmSnapAll makes the proxy take a crash image of the database file at every
// storage operation of every write transaction (and when the transaction
// function returned, and after commit / rollback finished).
func (p *Proxy) ArmSnapAll(snapPath string) {
	p.Arm(nil, snapPath)
	p.mu.Lock()
	p.snapAll = true
	p.snapLabel = nil
	p.mu.Unlock()
}

// SnapshotLabels returns, per crash image, the operation it was taken at.
func (p *Proxy) SnapshotLabels() []string {
	p.mu.Lock()
	defer p.mu.Unlock()
	return append([]string{}, p.snapLabel...)
}

// Fired reports whether the armed fault was triggered.
// FiredSite names the call site (innermost repository frames) of the operation the fault hit.
func (p *Proxy) FiredSite() string {
	p.mu.Lock()
	defer p.mu.Unlock()
	return p.firedSite
}

func (p *Proxy) Fired() bool {
	p.mu.Lock()
	defer p.mu.Unlock()
	return p.fired
}

// Snapshots returns the crash images taken since Arm.
func (p *Proxy) Snapshots() []string {
	p.mu.Lock()
	defer p.mu.Unlock()
	return append([]string{}, p.snapTaken...)
}

// TakeLate returns and clears the recorded late uses.
func (p *Proxy) TakeLate() []LateUse {
	p.mu.Lock()
	defer p.mu.Unlock()
	l := p.late
	p.late = nil
	return l
}

// TxCounts returns, per transaction since Arm, the number of operations per
// "bucket|kind".
func (p *Proxy) TxCounts() []map[string]int {
	p.mu.Lock()
	defer p.mu.Unlock()
	out := make([]map[string]int, len(p.perTx))
	for i, m := range p.perTx {
		c := map[string]int{}
		for k, v := range m {
			c[k] = v
		}
		out[i] = c
	}
	return out
}

func site() string {
	pcs := make([]uintptr, 40)
	n := runtime.Callers(3, pcs)
	frames := runtime.CallersFrames(pcs[:n])
	var parts []string
	for {
		fr, more := frames.Next()
		if strings.Contains(fr.Function, "github.com/semafind/semadb/") {
			fn := fr.Function[strings.LastIndex(fr.Function, "/")+1:]
			parts = append(parts, fn)
			if len(parts) == 3 {
				break
			}
		}
		if !more {
			break
		}
	}
	return strings.Join(parts, " < ")
}

// op is called at every storage operation. It returns an error to inject, and
// ok=false when the operation must not be forwarded.
func (p *Proxy) op(tx *txState, bucket, kind string) (err error, forward bool) {
	lateUse := func() (error, bool) {
		p.mu.Lock()
		if len(p.late) < 64 {
			p.late = append(p.late, LateUse{Bucket: bucket, Kind: kind, Writable: tx.writable, Site: site()})
		}
		p.mu.Unlock()
		return ErrTxEnded, false
	}
	if tx.ended.Load() {
		return lateUse()
	}
	tx.mu.Lock()
	key := bucket + "|" + kind
	tx.counts[key]++
	ord := tx.counts[key]
	tx.mu.Unlock()
	if h := p.Hook; h != nil {
		// scheduling point: no in-flight mark is held while parked, so that the
		// transaction function may return (and the transaction end) meanwhile
		h(Point{TxID: tx.id, Writable: tx.writable, Bucket: bucket, Kind: kind, Ordinal: ord})
	}
	tx.inflight.Add(1)
	if tx.ended.Load() {
		tx.inflight.Add(-1)
		return lateUse()
	}
	p.mu.Lock()
	f := p.fault
	match := f != nil && !p.fired && (f.Tx == 0 || f.Tx == tx.id) && (f.Bucket == "" || f.Bucket == bucket) && f.Kind == kind && f.Ordinal == ord
	if match && f.Action == "panic" && goid() != tx.owner {
		// a panic on any other goroutine ends the process without unwinding the
		// caller of Write: that death is the crash image taken at this operation
		match = false
	}
	if match {
		p.fired = true
		p.firedSite = site()
	}
	snapAll := p.snapAll && tx.writable
	if snapAll {
		p.snapLabel = append(p.snapLabel, fmt.Sprintf("before %s#%d on %q (tx %d)", kind, ord, bucket, tx.id))
	}
	p.mu.Unlock()
	if snapAll {
		p.snapshot()
	}
	if match {
		switch f.Action {
		case "fail":
			tx.inflight.Add(-1)
			return ErrInjected, false
		case "snapshot":
			p.snapshot()
		case "panic":
			// the goroutine that called Write dies here: its deferred functions
			// run (bbolt's rollback among them) while the stack unwinds
			tx.inflight.Add(-1)
			panic(ErrPanicInjected)
		}
	}
	return nil, true
}

func (p *Proxy) done(tx *txState) { tx.inflight.Add(-1) }

func (p *Proxy) snapshot() {
	src := p.inner.Path()
	p.mu.Lock()
	dst := fmt.Sprintf("%s.%d", p.snapPath, len(p.snapTaken))
	p.snapTaken = append(p.snapTaken, dst)
	p.mu.Unlock()
	in, err := os.Open(src)
	if err != nil {
		return
	}
	defer in.Close()
	out, err := os.Create(dst)
	if err != nil {
		return
	}
	io.Copy(out, in)
	out.Close()
}

// Snapshot copies the database file as it is now and returns the copy's path.
func (p *Proxy) Snapshot() string {
	p.snapshot()
	p.mu.Lock()
	defer p.mu.Unlock()
	return p.snapTaken[len(p.snapTaken)-1]
}

func (p *Proxy) begin(writable bool) *txState {
	p.mu.Lock()
	p.txSeq++
	tx := &txState{id: p.txSeq, writable: writable, counts: map[string]int{}, owner: goid()}
	p.perTx = append(p.perTx, tx.counts)
	p.mu.Unlock()
	return tx
}

// AliasesEndedTx reports whether b points into a value that a read-only
// transaction handed out and that transaction has ended (bbolt: "the returned
// value is only valid for the life of the transaction"). It does not touch
// the memory.
func (p *Proxy) AliasesEndedTx(b []byte) bool {
	if len(b) == 0 {
		return false
	}
	ptr := uintptr(unsafe.Pointer(&b[0]))
	p.mu.Lock()
	defer p.mu.Unlock()
	for _, r := range p.deadRanges {
		if ptr >= r[0] && ptr < r[1] {
			return true
		}
	}
	return false
}

// lend returns b itself, or under Poison a private copy that dies with the transaction.
func (p *Proxy) lend(tx *txState, b []byte) []byte {
	if !p.Poison || b == nil {
		return b
	}
	c := make([]byte, len(b))
	copy(c, b)
	tx.mu.Lock()
	tx.handed = append(tx.handed, c)
	tx.mu.Unlock()
	return c
}

func (p *Proxy) finish(tx *txState) {
	if p.TrackValues {
		p.mu.Lock()
		p.deadRanges = append(p.deadRanges, p.liveRanges[tx.id]...)
		delete(p.liveRanges, tx.id)
		if len(p.deadRanges) > 4096 {
			p.deadRanges = p.deadRanges[len(p.deadRanges)-4096:]
		}
		p.mu.Unlock()
	}
	tx.ended.Store(true)
	for tx.inflight.Load() > 0 {
		runtime.Gosched()
	}
	tx.mu.Lock()
	for _, b := range tx.handed {
		for i := range b {
			b[i] = 0xA5
		}
	}
	tx.handed = nil
	tx.mu.Unlock()
}

// ---- diskstore.DiskStore ----

func (p *Proxy) Path() string { return p.inner.Path() }

func (p *Proxy) run(writable bool, f func(diskstore.BucketManager) error) error {
	var tx *txState
	body := func(bm diskstore.BucketManager) error {
		tx = p.begin(writable)
		if err, fwd := p.op(tx, "", KBegin); !fwd {
			p.finish(tx)
			return err
		}
		p.done(tx)
		returned := false
		defer func() {
			if !returned { // unwinding a panic: the transaction is over for everybody
				p.finish(tx)
			}
		}()
		err := f(&bmProxy{p: p, tx: tx, inner: bm})
		returned = true
		// the function returned: from here on bbolt commits or rolls back;
		// nothing may touch the transaction any more
		if ierr, fwd := p.op(tx, "", KReturn); !fwd && err == nil {
			err = ierr
		} else if fwd {
			p.done(tx)
		}
		p.finish(tx)
		return err
	}
	var err error
	if writable {
		err = p.inner.Write(body)
	} else {
		err = p.inner.Read(body)
	}
	if tx != nil {
		// commit / rollback finished
		p.mu.Lock()
		f := p.fault
		match := f != nil && !p.fired && (f.Tx == 0 || f.Tx == tx.id) && f.Kind == KEnd
		if match {
			p.fired = true
		}
		snapAll := p.snapAll && writable
		if snapAll {
			p.snapLabel = append(p.snapLabel, fmt.Sprintf("after TxEnd (tx %d, err=%v)", tx.id, err))
		}
		p.mu.Unlock()
		if (match && f.Action == "snapshot") || snapAll {
			p.snapshot()
		}
		if h := p.Hook; h != nil {
			h(Point{TxID: tx.id, Writable: writable, Kind: KEnd, Failed: err != nil})
		}
	}
	return err
}

func (p *Proxy) Read(f func(diskstore.BucketManager) error) error  { return p.run(false, f) }
func (p *Proxy) Write(f func(diskstore.BucketManager) error) error { return p.run(true, f) }
func (p *Proxy) BackupToFile(path string) error                    { return p.inner.BackupToFile(path) }
func (p *Proxy) SizeInBytes() (int64, error)                       { return p.inner.SizeInBytes() }
func (p *Proxy) Close() error                                      { return p.inner.Close() }

type bmProxy struct {
	p     *Proxy
	tx    *txState
	inner diskstore.BucketManager
}

func (bm *bmProxy) Get(name string) (diskstore.Bucket, error) {
	err, fwd := bm.p.op(bm.tx, name, KOpen)
	if !fwd {
		return nil, err
	}
	defer bm.p.done(bm.tx)
	b, err := bm.inner.Get(name)
	if err != nil {
		return nil, err
	}
	return &bucketProxy{p: bm.p, tx: bm.tx, name: name, inner: b}, nil
}

func (bm *bmProxy) Delete(name string) error {
	err, fwd := bm.p.op(bm.tx, name, KDelete)
	if !fwd {
		return err
	}
	defer bm.p.done(bm.tx)
	return bm.inner.Delete(name)
}

type bucketProxy struct {
	p     *Proxy
	tx    *txState
	name  string
	inner diskstore.Bucket
}

func (b *bucketProxy) IsReadOnly() bool { return !b.tx.writable }

func (b *bucketProxy) Get(k []byte) []byte {
	// Get cannot signal an error in this API: an injected fault is not
	// possible, a late use is answered with "not found"
	if _, fwd := b.p.op(b.tx, b.name, KGet); !fwd {
		return nil
	}
	defer b.p.done(b.tx)
	v := b.inner.Get(k)
	if b.p.TrackValues && !b.tx.writable && len(v) > 0 {
		b.p.mu.Lock()
		if b.p.liveRanges == nil {
			b.p.liveRanges = map[int][][2]uintptr{}
		}
		start := uintptr(unsafe.Pointer(&v[0]))
		b.p.liveRanges[b.tx.id] = append(b.p.liveRanges[b.tx.id], [2]uintptr{start, start + uintptr(len(v))})
		b.p.mu.Unlock()
	}
	return b.p.lend(b.tx, v)
}

func (b *bucketProxy) Put(k, v []byte) error {
	err, fwd := b.p.op(b.tx, b.name, KPut)
	if !fwd {
		return err
	}
	defer b.p.done(b.tx)
	return b.inner.Put(k, v)
}

func (b *bucketProxy) Delete(k []byte) error {
	err, fwd := b.p.op(b.tx, b.name, KDelete)
	if !fwd {
		return err
	}
	defer b.p.done(b.tx)
	return b.inner.Delete(k)
}

func (b *bucketProxy) ForEach(f func(k, v []byte) error) error {
	err, fwd := b.p.op(b.tx, b.name, KEach)
	if !fwd {
		return err
	}
	defer b.p.done(b.tx)
	return b.inner.ForEach(func(k, v []byte) error {
		if b.tx.ended.Load() {
			return ErrTxEnded
		}
		return f(b.p.lend(b.tx, k), b.p.lend(b.tx, v))
	})
}

func (b *bucketProxy) PrefixScan(prefix []byte, f func(k, v []byte) error) error {
	err, fwd := b.p.op(b.tx, b.name, KScan)
	if !fwd {
		return err
	}
	defer b.p.done(b.tx)
	return b.inner.PrefixScan(prefix, func(k, v []byte) error { return f(b.p.lend(b.tx, k), b.p.lend(b.tx, v)) })
}

func (b *bucketProxy) RangeScan(start, end []byte, inclusive bool, f func(k, v []byte) error) error {
	err, fwd := b.p.op(b.tx, b.name, KScan)
	if !fwd {
		return err
	}
	defer b.p.done(b.tx)
	return b.inner.RangeScan(start, end, inclusive, func(k, v []byte) error { return f(b.p.lend(b.tx, k), b.p.lend(b.tx, v)) })
}

// LateSignature summarises late uses into a stable signature: which bucket
// classes were touched by which index code after the transaction ended.
func LateSignature(l []LateUse) string {
	set := map[string]bool{}
	for _, u := range l {
		b := u.Bucket
		if strings.HasPrefix(b, "index/") {
			parts := strings.Split(b, "/")
			b = "index/" + parts[1]
		}
		set[b] = true
	}
	var keys []string
	for k := range set {
		keys = append(keys, k)
	}
	sort.Strings(keys)
	return strings.Join(keys, ",")
}
